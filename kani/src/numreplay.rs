//! Concrete evaluation of the numeric kernels for replaying E2 (MIR→SMT) models against the real code.
//! Output: one line `OK <value>` or `PANIC <message>`; floats are printed as their bit pattern (hex)
//! followed by the value.
use std::panic;

fn pi(s: &str) -> i64 {
    s.parse().expect("i64 operand")
}
fn pf(s: &str) -> f64 {
    if let Some(h) = s.strip_prefix("0x") {
        f64::from_bits(u64::from_str_radix(h, 16).expect("hex f64 bits"))
    } else {
        s.parse().expect("f64 operand")
    }
}
fn show_i(r: std::thread::Result<i64>) {
    match r {
        Ok(v) => println!("OK {v}"),
        Err(p) => println!("PANIC {}", msg(&p)),
    }
}
fn show_f(r: std::thread::Result<f64>) {
    match r {
        Ok(v) => println!("OK 0x{:016x} {:e}", v.to_bits(), v),
        Err(p) => println!("PANIC {}", msg(&p)),
    }
}
fn msg(p: &Box<dyn std::any::Any + Send>) -> String {
    if let Some(s) = p.downcast_ref::<String>() {
        s.clone()
    } else if let Some(s) = p.downcast_ref::<&str>() {
        s.to_string()
    } else {
        "<non-string panic>".into()
    }
}

pub fn main(args: &[String]) {
    use incan_stdlib::num as n;
    let f = args[0].as_str();
    let a = &args[1];
    let b = &args[2];
    macro_rules! ci { ($e:expr) => { show_i(panic::catch_unwind(|| $e)) }; }
    macro_rules! cf { ($e:expr) => { show_f(panic::catch_unwind(|| $e)) }; }
    match f {
        "core::py_mod_i64_impl" => { let (a, b) = (pi(a), pi(b)); ci!(incan_core::py_mod_i64_impl(a, b)) }
        "core::py_floor_div_i64_impl" => { let (a, b) = (pi(a), pi(b)); ci!(incan_core::py_floor_div_i64_impl(a, b)) }
        "core::py_mod_f64_impl" => { let (a, b) = (pf(a), pf(b)); cf!(incan_core::py_mod_f64_impl(a, b)) }
        "py_mod_i64" => { let (a, b) = (pi(a), pi(b)); ci!(n::py_mod_i64(a, b)) }
        "py_floor_div_i64" => { let (a, b) = (pi(a), pi(b)); ci!(n::py_floor_div_i64(a, b)) }
        "py_mod_f64" => { let (a, b) = (pf(a), pf(b)); cf!(n::py_mod_f64(a, b)) }
        "py_floor_div_f64" => { let (a, b) = (pf(a), pf(b)); cf!(n::py_floor_div_f64(a, b)) }
        "py_mod<i64,i64>" => { let (a, b) = (pi(a), pi(b)); ci!(n::py_mod(a, b)) }
        "py_mod<i64,f64>" => { let (a, b) = (pi(a), pf(b)); cf!(n::py_mod(a, b)) }
        "py_mod<f64,i64>" => { let (a, b) = (pf(a), pi(b)); cf!(n::py_mod(a, b)) }
        "py_mod<f64,f64>" => { let (a, b) = (pf(a), pf(b)); cf!(n::py_mod(a, b)) }
        "py_floor_div<i64,i64>" => { let (a, b) = (pi(a), pi(b)); ci!(n::py_floor_div(a, b)) }
        "py_floor_div<i64,f64>" => { let (a, b) = (pi(a), pf(b)); cf!(n::py_floor_div(a, b)) }
        "py_floor_div<f64,i64>" => { let (a, b) = (pf(a), pi(b)); cf!(n::py_floor_div(a, b)) }
        "py_floor_div<f64,f64>" => { let (a, b) = (pf(a), pf(b)); cf!(n::py_floor_div(a, b)) }
        "py_div<i64,i64>" => { let (a, b) = (pi(a), pi(b)); cf!(n::py_div(a, b)) }
        "py_div<i64,f64>" => { let (a, b) = (pi(a), pf(b)); cf!(n::py_div(a, b)) }
        "py_div<f64,i64>" => { let (a, b) = (pf(a), pi(b)); cf!(n::py_div(a, b)) }
        "py_div<f64,f64>" => { let (a, b) = (pf(a), pf(b)); cf!(n::py_div(a, b)) }
        _ => {
            eprintln!("unknown function {f}");
            std::process::exit(2);
        }
    }
}
