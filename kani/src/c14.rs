//! C14 (export filter only) — only `pub` declarations of a module are visible to its importers.
use crate::nd::Nd;
use incan::frontend::ast::*;
use incan::frontend::module::{ExportedSymbol, exported_symbols};

fn sp<T>(node: T) -> Spanned<T> {
    Spanned { node, span: Span::default() }
}
const NAMES: [&str; 4] = ["N", "Va", "Vb", "x"];
fn name(c: u8) -> String {
    // concrete names (a symbolic name makes the String's length symbolic and CBMC runs out of memory)
    NAMES[(c % 4) as usize].to_string()
}
fn is_name(s: &str, c: u8) -> bool {
    let w = NAMES[(c % 4) as usize].as_bytes();
    let b = s.as_bytes();
    b.len() == w.len() && b[0] == w[0] && (w.len() < 2 || b[1] == w[1])
}

/// Build one declaration of kind `k` (0..=8) with visibility `vis` and name letter `c`.
fn decl(k: u8, vis: Visibility, c: u8) -> Declaration {
    match k {
        0 => Declaration::Const(ConstDecl { visibility: vis, name: name(c), ty: None, value: sp(Expr::Literal(Literal::Int(1))) }),
        1 => Declaration::Model(ModelDecl { visibility: vis, decorators: vec![], name: name(c), type_params: vec![], traits: vec![], fields: vec![], methods: vec![] }),
        2 => Declaration::Class(ClassDecl { visibility: vis, decorators: vec![], name: name(c), type_params: vec![], extends: None, traits: vec![], fields: vec![], methods: vec![] }),
        3 => Declaration::Trait(TraitDecl { visibility: vis, decorators: vec![], name: name(c), type_params: vec![], methods: vec![] }),
        4 => Declaration::Enum(EnumDecl {
            visibility: vis,
            name: name(c),
            type_params: vec![],
            variants: vec![sp(VariantDecl { name: name(c.wrapping_add(1)), fields: vec![] }), sp(VariantDecl { name: name(c.wrapping_add(2)), fields: vec![] })],
        }),
        5 => Declaration::Newtype(NewtypeDecl { visibility: vis, name: name(c), underlying: sp(Type::Unit), methods: vec![] }),
        6 => Declaration::Function(FunctionDecl { visibility: vis, decorators: vec![], is_async: false, name: name(c), type_params: vec![], params: vec![], return_type: sp(Type::Unit), body: vec![] }),
        7 => Declaration::Import(ImportDecl { kind: ImportKind::Module(ImportPath { segments: vec![name(c)], is_absolute: false, parent_levels: 0 }), alias: None }),
        _ => Declaration::Docstring(name(c)),
    }
}

fn check_one(k: u8, public: bool, c: u8, ex: &[ExportedSymbol]) {
    let exportable = k <= 6;
    if !(exportable && public) {
        assert!(ex.is_empty(), "a non-pub declaration (or an import/docstring) is exported");
        return;
    }
    let want_len = if k == 4 { 3 } else { 1 };
    assert!(ex.len() == want_len, "wrong number of exported symbols for a pub declaration");
    let ok = match (&ex[0], k) {
        (ExportedSymbol::Const(n), 0) => is_name(n, c),
        (ExportedSymbol::Type(n), 1) | (ExportedSymbol::Type(n), 2) | (ExportedSymbol::Type(n), 4) | (ExportedSymbol::Type(n), 5) => is_name(n, c),
        (ExportedSymbol::Trait(n), 3) => is_name(n, c),
        (ExportedSymbol::Function(n), 6) => is_name(n, c),
        _ => false,
    };
    assert!(ok, "pub declaration exported under the wrong kind or name");
    if k == 4 {
        for j in 0..2u8 {
            let ok = match &ex[1 + j as usize] {
                ExportedSymbol::Variant { enum_name, variant_name } => is_name(enum_name, c) && is_name(variant_name, c.wrapping_add(1 + j)),
                _ => false,
            };
            assert!(ok, "enum variant exported under the wrong name");
        }
    }
}

pub fn export_one_body<N: Nd>(nd: &mut N, k: u8) {
    let public = nd.bool();
    let c = 0u8;
    let vis = if public { Visibility::Public } else { Visibility::Private };
    let prog = Program { declarations: vec![sp(decl(k, vis, c))] };
    let ex = exported_symbols(&prog);
    check_one(k, public, c, &ex);
    vcover!(public, "pub declaration");
    vcover!(!public, "private declaration");
    core::mem::forget(ex);
    core::mem::forget(prog);
}

harnesses! {
    #[kani::unwind(5)]
    fn c14_export_const(nd) { export_one_body(nd, 0) }
    #[kani::unwind(5)]
    fn c14_export_model(nd) { export_one_body(nd, 1) }
    #[kani::unwind(5)]
    fn c14_export_class(nd) { export_one_body(nd, 2) }
    #[kani::unwind(5)]
    fn c14_export_trait(nd) { export_one_body(nd, 3) }
    #[kani::unwind(5)]
    fn c14_export_enum(nd) { export_one_body(nd, 4) }
    #[kani::unwind(5)]
    fn c14_export_newtype(nd) { export_one_body(nd, 5) }
    #[kani::unwind(5)]
    fn c14_export_function(nd) { export_one_body(nd, 6) }
    #[kani::unwind(5)]
    fn c14_export_import(nd) { export_one_body(nd, 7) }
    #[kani::unwind(5)]
    fn c14_export_docstring(nd) { export_one_body(nd, 8) }
}
