//! C19 — editor positions and byte offsets convert consistently.
//!
//! The document is *any* valid UTF-8 text of at most N bytes (every mix of 1–4-byte scalars, `\n`, `\r`,
//! empty, no final newline); offsets, spans and positions are unconstrained within the stated ranges.
use crate::nd::Nd;
use incan::lsp::diagnostics::{offset_to_position, position_to_offset, span_to_range};
use tower_lsp::lsp_types::Position;

/// Well-formed UTF-8 (RFC 3629 / Unicode Table 3-7), byte by byte. Used instead of `core::str::from_utf8`, whose
/// word-at-a-time validator dominates CBMC's run time; `utf8_validator_matches_std` proves the two agree.
pub fn valid_utf8(b: &[u8]) -> bool {
    let n = b.len();
    let mut i = 0;
    while i < n {
        let c = b[i];
        if c < 0x80 {
            i += 1;
        } else if c >= 0xC2 && c <= 0xDF {
            if i + 1 >= n || (b[i + 1] & 0xC0) != 0x80 {
                return false;
            }
            i += 2;
        } else if c >= 0xE0 && c <= 0xEF {
            if i + 2 >= n {
                return false;
            }
            let (lo, hi) = if c == 0xE0 { (0xA0, 0xBF) } else if c == 0xED { (0x80, 0x9F) } else { (0x80, 0xBF) };
            if b[i + 1] < lo || b[i + 1] > hi || (b[i + 2] & 0xC0) != 0x80 {
                return false;
            }
            i += 3;
        } else if c >= 0xF0 && c <= 0xF4 {
            if i + 3 >= n {
                return false;
            }
            let (lo, hi) = if c == 0xF0 { (0x90, 0xBF) } else if c == 0xF4 { (0x80, 0x8F) } else { (0x80, 0xBF) };
            if b[i + 1] < lo || b[i + 1] > hi || (b[i + 2] & 0xC0) != 0x80 || (b[i + 3] & 0xC0) != 0x80 {
                return false;
            }
            i += 4;
        } else {
            return false;
        }
    }
    true
}

pub fn doc<'a, N: Nd, const M: usize>(nd: &mut N, buf: &'a mut [u8; M]) -> &'a str {
    for k in 0..M {
        buf[k] = nd.u8();
    }
    let len = nd.usize();
    nd.assume(len <= M);
    nd.assume(valid_utf8(&buf[..len]));
    #[cfg(not(kani))]
    assert!(core::str::from_utf8(&buf[..len]).is_ok(), "harness bug: valid_utf8 accepted ill-formed UTF-8");
    unsafe { core::str::from_utf8_unchecked(&buf[..len]) }
}

/// The byte-wise validator and std's agree on every byte string of at most M bytes.
pub fn validator_body<N: Nd, const M: usize>(nd: &mut N) {
    let mut buf = [0u8; M];
    for k in 0..M {
        buf[k] = nd.u8();
    }
    let len = nd.usize();
    nd.assume(len <= M);
    let mine = valid_utf8(&buf[..len]);
    let std_ok = core::str::from_utf8(&buf[..len]).is_ok();
    assert!(mine == std_ok, "valid_utf8 disagrees with core::str::from_utf8");
    vcover!(mine && len == M && buf[0] >= 0xF0, "a 4-byte scalar accepted");
    vcover!(!mine && len == 3 && buf[0] == 0xED, "a surrogate rejected");
}

/// Oracle: line = number of '\n' before `off`; character = scalars since the last '\n'.
fn count_oracle(s: &str, off: usize) -> (u32, u32) {
    let b = s.as_bytes();
    let mut line = 0u32;
    let mut col = 0u32;
    let mut i = 0;
    while i < off && i < b.len() {
        if b[i] == b'\n' {
            line += 1;
            col = 0;
        } else if (b[i] & 0xC0) != 0x80 {
            // a scalar's first byte
            col += 1;
        }
        i += 1;
    }
    (line, col)
}

fn lex_lt(a: Position, b: Position) -> bool {
    a.line < b.line || (a.line == b.line && a.character < b.character)
}
fn lex_le(a: Position, b: Position) -> bool {
    a.line < b.line || (a.line == b.line && a.character <= b.character)
}

/// (R) round trip and (L) agreement with counting, on character boundaries.
pub fn roundtrip_body<N: Nd, const M: usize>(nd: &mut N) {
    let mut buf = [0u8; M];
    let s = doc(nd, &mut buf);
    let off = nd.usize();
    nd.assume(off <= s.len());
    nd.assume(s.is_char_boundary(off));
    let p = offset_to_position(s, off);
    let (l, c) = count_oracle(s, off);
    assert!(p.line == l && p.character == c, "line/character disagree with counting newlines and scalars");
    let back = position_to_offset(s, p);
    assert!(back == Some(off), "offset -> position -> offset is not the identity");
    vcover!(s.len() == M && s.as_bytes()[0] >= 0xF0 && off == 4, "offset right after a 4-byte scalar");
    vcover!(s.len() >= 2 && s.as_bytes()[0] == b'\n' && off == s.len(), "end of file after a newline");
    vcover!(s.len() >= 3 && s.as_bytes()[0] == b'\r' && s.as_bytes()[1] == b'\n' && off == 2, "after CRLF");
    vcover!(s.is_empty(), "empty document");
}

/// (M) positions are strictly monotone in boundary offsets.
pub fn monotone_body<N: Nd, const M: usize>(nd: &mut N) {
    let mut buf = [0u8; M];
    let s = doc(nd, &mut buf);
    let o1 = nd.usize();
    let o2 = nd.usize();
    nd.assume(o1 < o2 && o2 <= s.len());
    nd.assume(s.is_char_boundary(o1) && s.is_char_boundary(o2));
    let p1 = offset_to_position(s, o1);
    let p2 = offset_to_position(s, o2);
    assert!(lex_lt(p1, p2), "positions are not strictly increasing with offsets");
    vcover!(p2.line > p1.line && p2.character < p1.character, "line break between the two offsets");
    vcover!(o2 - o1 >= 3 && p2.line == p1.line && p2.character == p1.character + 1, "one multi-byte scalar apart");
}

/// (P) any position maps to `None` or to a character boundary inside the document, and a position that
/// is the image of an offset maps back to it (no two boundary offsets share a position).
pub fn position_body<N: Nd, const M: usize>(nd: &mut N) {
    let mut buf = [0u8; M];
    let s = doc(nd, &mut buf);
    let pos = Position::new(nd.u32(), nd.u32());
    match position_to_offset(s, pos) {
        None => {
            vcover!(pos.line == 0, "position beyond the end on line 0 is None");
        }
        Some(o) => {
            assert!(o <= s.len(), "position maps past the end of the document");
            assert!(s.is_char_boundary(o), "position maps into the middle of a scalar");
            let q = offset_to_position(s, o);
            vcover!(q.line == pos.line && q.character < pos.character, "column past the line end maps inside the document");
            vcover!(o == s.len() && o > 0, "position at end of file");
        }
    }
}

/// (S) the range reported for any span — empty, reversed, past the end, mid-scalar — is well-formed.
pub fn span_body<N: Nd, const M: usize>(nd: &mut N) {
    let mut buf = [0u8; M];
    let s = doc(nd, &mut buf);
    let start = nd.usize();
    let end = nd.usize();
    nd.assume(start < (1usize << 32) && end < (1usize << 32));
    let r = span_to_range(s, start, end);
    assert!(lex_le(r.start, r.end), "range start is after range end");
    let eof = offset_to_position(s, s.len());
    assert!(lex_le(r.end, eof), "range ends past the end of the document");
    let a = position_to_offset(s, r.start);
    let b = position_to_offset(s, r.end);
    assert!(a.is_some() && b.is_some(), "range endpoint is not a position of the document");
    assert!(a.unwrap() <= b.unwrap() && b.unwrap() <= s.len(), "range endpoints are not offsets inside the document");
    vcover!(end < start && start < s.len(), "reversed span inside the document");
    vcover!(start > s.len(), "span starting past the end");
    vcover!(start == end && start < s.len(), "empty span");
    vcover!(start < s.len() && !s.is_char_boundary(start), "span starting inside a scalar");
}

harnesses! {
    #[kani::unwind(6)]
    fn c19_utf8_validator_matches_std_n4(nd) { validator_body::<_, 4>(nd) }

    // small documents: cheap, and still decidable when a change pulls heavier std code (lines(), find()) into the
    // conversion functions and the n4/n6 harnesses no longer finish within the cap
    #[kani::unwind(4)]
    #[kani::stub(core::slice::memchr::memchr, crate::env::memchr_stub)]
    #[kani::stub(core::slice::memchr::memrchr, crate::env::memrchr_stub)]
    #[kani::stub(core::str::count::count_chars, crate::env::count_chars_stub)]
    fn c19_roundtrip_n2(nd) { roundtrip_body::<_, 2>(nd) }
    #[kani::unwind(4)]
    #[kani::stub(core::slice::memchr::memchr, crate::env::memchr_stub)]
    #[kani::stub(core::slice::memchr::memrchr, crate::env::memrchr_stub)]
    #[kani::stub(core::str::count::count_chars, crate::env::count_chars_stub)]
    fn c19_monotone_n2(nd) { monotone_body::<_, 2>(nd) }
    #[kani::unwind(4)]
    #[kani::stub(core::slice::memchr::memchr, crate::env::memchr_stub)]
    #[kani::stub(core::slice::memchr::memrchr, crate::env::memrchr_stub)]
    #[kani::stub(core::str::count::count_chars, crate::env::count_chars_stub)]
    fn c19_position_n2(nd) { position_body::<_, 2>(nd) }
    #[kani::unwind(4)]
    #[kani::stub(core::slice::memchr::memchr, crate::env::memchr_stub)]
    #[kani::stub(core::slice::memchr::memrchr, crate::env::memrchr_stub)]
    #[kani::stub(core::str::count::count_chars, crate::env::count_chars_stub)]
    fn c19_span_n2(nd) { span_body::<_, 2>(nd) }

    #[kani::unwind(6)]
    #[kani::stub(core::slice::memchr::memchr, crate::env::memchr_stub)]
    #[kani::stub(core::slice::memchr::memrchr, crate::env::memrchr_stub)]
    #[kani::stub(core::str::count::count_chars, crate::env::count_chars_stub)]
    fn c19_roundtrip_n4(nd) { roundtrip_body::<_, 4>(nd) }
    #[kani::unwind(6)]
    #[kani::stub(core::slice::memchr::memchr, crate::env::memchr_stub)]
    #[kani::stub(core::slice::memchr::memrchr, crate::env::memrchr_stub)]
    #[kani::stub(core::str::count::count_chars, crate::env::count_chars_stub)]
    fn c19_monotone_n4(nd) { monotone_body::<_, 4>(nd) }
    #[kani::unwind(6)]
    #[kani::stub(core::slice::memchr::memchr, crate::env::memchr_stub)]
    #[kani::stub(core::slice::memchr::memrchr, crate::env::memrchr_stub)]
    #[kani::stub(core::str::count::count_chars, crate::env::count_chars_stub)]
    fn c19_position_n4(nd) { position_body::<_, 4>(nd) }
    #[kani::unwind(6)]
    #[kani::stub(core::slice::memchr::memchr, crate::env::memchr_stub)]
    #[kani::stub(core::slice::memchr::memrchr, crate::env::memrchr_stub)]
    #[kani::stub(core::str::count::count_chars, crate::env::count_chars_stub)]
    fn c19_span_n4(nd) { span_body::<_, 4>(nd) }

    #[kani::unwind(8)]
    #[kani::stub(core::slice::memchr::memchr, crate::env::memchr_stub)]
    #[kani::stub(core::slice::memchr::memrchr, crate::env::memrchr_stub)]
    #[kani::stub(core::str::count::count_chars, crate::env::count_chars_stub)]
    fn c19_roundtrip_n6(nd) { roundtrip_body::<_, 6>(nd) }
    #[kani::unwind(8)]
    #[kani::stub(core::slice::memchr::memchr, crate::env::memchr_stub)]
    #[kani::stub(core::slice::memchr::memrchr, crate::env::memrchr_stub)]
    #[kani::stub(core::str::count::count_chars, crate::env::count_chars_stub)]
    fn c19_monotone_n6(nd) { monotone_body::<_, 6>(nd) }
    #[kani::unwind(8)]
    #[kani::stub(core::slice::memchr::memchr, crate::env::memchr_stub)]
    #[kani::stub(core::slice::memchr::memrchr, crate::env::memrchr_stub)]
    #[kani::stub(core::str::count::count_chars, crate::env::count_chars_stub)]
    fn c19_position_n6(nd) { position_body::<_, 6>(nd) }
    #[kani::unwind(8)]
    #[kani::stub(core::slice::memchr::memchr, crate::env::memchr_stub)]
    #[kani::stub(core::slice::memchr::memrchr, crate::env::memrchr_stub)]
    #[kani::stub(core::str::count::count_chars, crate::env::count_chars_stub)]
    fn c19_span_n6(nd) { span_body::<_, 6>(nd) }

    #[kani::unwind(10)]
    #[kani::stub(core::slice::memchr::memchr, crate::env::memchr_stub)]
    #[kani::stub(core::slice::memchr::memrchr, crate::env::memrchr_stub)]
    #[kani::stub(core::str::count::count_chars, crate::env::count_chars_stub)]
    fn c19_roundtrip_n8(nd) { roundtrip_body::<_, 8>(nd) }
    #[kani::unwind(10)]
    #[kani::stub(core::slice::memchr::memchr, crate::env::memchr_stub)]
    #[kani::stub(core::slice::memchr::memrchr, crate::env::memrchr_stub)]
    #[kani::stub(core::str::count::count_chars, crate::env::count_chars_stub)]
    fn c19_monotone_n8(nd) { monotone_body::<_, 8>(nd) }
    #[kani::unwind(10)]
    #[kani::stub(core::slice::memchr::memchr, crate::env::memchr_stub)]
    #[kani::stub(core::slice::memchr::memrchr, crate::env::memrchr_stub)]
    #[kani::stub(core::str::count::count_chars, crate::env::count_chars_stub)]
    fn c19_position_n8(nd) { position_body::<_, 8>(nd) }
    #[kani::unwind(10)]
    #[kani::stub(core::slice::memchr::memchr, crate::env::memchr_stub)]
    #[kani::stub(core::slice::memchr::memrchr, crate::env::memrchr_stub)]
    #[kani::stub(core::str::count::count_chars, crate::env::count_chars_stub)]
    fn c19_span_n8(nd) { span_body::<_, 8>(nd) }
    #[kani::unwind(12)]
    #[kani::stub(core::slice::memchr::memchr, crate::env::memchr_stub)]
    #[kani::stub(core::slice::memchr::memrchr, crate::env::memrchr_stub)]
    #[kani::stub(core::str::count::count_chars, crate::env::count_chars_stub)]
    fn c19_roundtrip_n10(nd) { roundtrip_body::<_, 10>(nd) }
    #[kani::unwind(12)]
    #[kani::stub(core::slice::memchr::memchr, crate::env::memchr_stub)]
    #[kani::stub(core::slice::memchr::memrchr, crate::env::memrchr_stub)]
    #[kani::stub(core::str::count::count_chars, crate::env::count_chars_stub)]
    fn c19_monotone_n10(nd) { monotone_body::<_, 10>(nd) }
    #[kani::unwind(12)]
    #[kani::stub(core::slice::memchr::memchr, crate::env::memchr_stub)]
    #[kani::stub(core::slice::memchr::memrchr, crate::env::memrchr_stub)]
    #[kani::stub(core::str::count::count_chars, crate::env::count_chars_stub)]
    fn c19_span_n10(nd) { span_body::<_, 10>(nd) }
    #[kani::unwind(14)]
    #[kani::stub(core::slice::memchr::memchr, crate::env::memchr_stub)]
    #[kani::stub(core::slice::memchr::memrchr, crate::env::memrchr_stub)]
    #[kani::stub(core::str::count::count_chars, crate::env::count_chars_stub)]
    fn c19_roundtrip_n12(nd) { roundtrip_body::<_, 12>(nd) }
}
