//! C05 — indexing, slicing and range follow Python for every argument.
//!
//! Oracle: CPython's index normalisation / `PySlice_AdjustIndices` + index walk / `range` semantics,
//! written in `i128` so the oracle itself cannot overflow.
use crate::env::*;
use crate::nd::Nd;
use incan_core::errors::ErrorKind;
use incan_core::strings::StringAccessError;

pub fn py_index(len: usize, i: i64) -> Option<usize> {
    let l = len as i128;
    let mut k = i as i128;
    if k < 0 {
        k += l;
    }
    if k < 0 || k >= l { None } else { Some(k as usize) }
}

/// CPython `PySlice_AdjustIndices` followed by the element walk. `step != 0`.
pub fn py_slice_walk(len: usize, start: Option<i64>, end: Option<i64>, step: i64, out: &mut [usize; LOG_CAP]) -> usize {
    let l = len as i128;
    let st = step as i128;
    let (lower, upper) = if st > 0 { (0, l) } else { (-1, l - 1) };
    let norm = |v: Option<i64>, dflt: i128| -> i128 {
        match v {
            None => dflt,
            Some(s) => {
                let s = s as i128;
                if s < 0 {
                    let t = s + l;
                    if t < lower { lower } else { t }
                } else if s > upper {
                    upper
                } else {
                    s
                }
            }
        }
    };
    let a = norm(start, if st < 0 { upper } else { lower });
    let b = norm(end, if st < 0 { lower } else { upper });
    let mut n = 0;
    let mut i = a;
    while (st > 0 && i < b) || (st < 0 && i > b) {
        out[n] = i as usize;
        n += 1;
        i += st;
    }
    n
}

use incan_core::errors::IncanError;

// ---- lists -------------------------------------------------------------------------------------------

pub fn list_get_body<N: Nd, const L: usize>(nd: &mut N, mutable: bool) {
    let mut data = [0u8; L];
    for k in 0..L {
        data[k] = nd.u8();
    }
    let len = nd.usize();
    nd.assume(len <= L);
    let idx = nd.i64();
    let want = py_index(len, idx);
    let copy = data;
    let expect = if want.is_none() { Some(IncanError::index_out_of_range_for("list", idx, len)) } else { None };
    vcover!(len == L && idx == -(L as i64), "most negative valid index");
    vcover!(want.is_none() && idx > 0, "positive out-of-range index");
    vcover!(idx == i64::MIN, "i64::MIN index");
    if mutable {
        let got = guarded(expect, || {
            let r = incan_stdlib::collections::list_get_mut(&mut data[..len], idx);
            (*r, r as *mut u8 as usize)
        });
        if let Some((v, addr)) = got {
            let w = want.unwrap();
            assert!(v == copy[w], "list_get_mut returned a different element than Python");
            assert!(addr == &data[w] as *const u8 as usize, "list_get_mut returned a reference to another slot");
        }
    } else {
        let got = guarded(expect, || {
            let r = incan_stdlib::collections::list_get(&data[..len], idx);
            (*r, r as *const u8 as usize)
        });
        if let Some((v, addr)) = got {
            let w = want.unwrap();
            assert!(v == copy[w], "list_get returned a different element than Python");
            assert!(addr == &data[w] as *const u8 as usize, "list_get returned a reference to another slot");
        }
    }
}

pub fn list_slice_body<N: Nd, const L: usize>(nd: &mut N, logged: bool) {
    list_slice_body_z::<N, L>(nd, logged, true)
}

pub fn list_slice_body_z<N: Nd, const L: usize>(nd: &mut N, logged: bool, allow_zero_step: bool) {
    let mut data = [0u8; L];
    for k in 0..L {
        data[k] = nd.u8();
    }
    let len = nd.usize();
    nd.assume(len <= L);
    let start = nd.opt_i64();
    let end = nd.opt_i64();
    let step = nd.opt_i64();
    let zero = step == Some(0);
    if !allow_zero_step {
        nd.assume(!zero);
    }
    let expect = if zero { Some(IncanError::slice_step_zero()) } else { None };
    let mut idxs = [0usize; LOG_CAP];
    let m = if zero { 0 } else { py_slice_walk(len, start, end, step.unwrap_or(1), &mut idxs) };
    if allow_zero_step {
        vcover!(zero, "zero step");
    }
    vcover!(m == L && step == Some(-1), "full reverse slice");
    vcover!(m >= 2 && step == Some(2), "stride-2 slice with two or more elements");
    vcover!(m == 1 && step == Some(i64::MAX), "step i64::MAX yields exactly one element");
    vcover!(m == 1 && step == Some(i64::MIN), "step i64::MIN yields exactly one element");
    vcover!(start == Some(i64::MIN) && m > 0, "start i64::MIN clamps");
    log_reset();
    let got = guarded(expect, || incan_stdlib::collections::list_slice(&data[..len], start, end, step));
    if let Some(out) = got {
        let (elems, n) = produced_bytes(&out, logged);
        assert!(n == m, "list slice has a different number of elements than Python's");
        for k in 0..m {
            assert!(elems[k] == data[idxs[k]] as u32, "list slice element differs from Python's");
        }
        core::mem::forget(out);
    }
}

// ---- strings -----------------------------------------------------------------------------------------

/// Scalars of 1, 2, 3 and 4 UTF-8 bytes, then ASCII again and a newline.
pub const SCALARS: [char; 6] = ['a', 'é', '€', '😀', 'b', '\n'];
pub const STRS: [&str; 7] = ["", "a", "aé", "aé€", "aé€😀", "aé€😀b", "aé€😀b\n"];
/// The same scalars, widest first (so a 4-byte scalar is at index 0).
pub const SCALARS_REV: [char; 4] = ['😀', '€', 'é', 'a'];
pub const STRS_REV: [&str; 5] = ["", "😀", "😀€", "😀€é", "😀€éa"];
/// ASCII scalars AFTER multi-byte ones (byte index != scalar index for the ASCII positions).
pub const SCALARS_MIX: [char; 4] = ['é', 'a', '€', 'b'];
pub const STR_MIX: &str = "éa€b";

fn table(rev: bool, k: usize) -> (&'static str, &'static [char]) {
    if rev && k == 44 {
        return (STR_MIX, &SCALARS_MIX[..]);
    }
    if rev { (STRS_REV[k], &SCALARS_REV[..k]) } else { (STRS[k], &SCALARS[..k]) }
}

pub fn str_char_at_body<N: Nd>(nd: &mut N, rev: bool, k: usize, wrapper: bool) {
    let (s, scalars) = table(rev, k);
    let k = scalars.len();
    let idx = nd.i64();
    let want = py_index(k, idx);
    vcover!(want == Some(0) && idx < 0, "most negative valid index");
    vcover!(k > 0 && want == Some(k - 1) && idx >= 0, "last scalar by positive index");
    vcover!(idx == i64::MIN, "i64::MIN index");
    if wrapper {
        let expect = if want.is_none() { Some(IncanError::string_index_out_of_range()) } else { None };
        let got = guarded(expect, || incan_stdlib::strings::str_index(s, idx));
        if let Some(out) = got {
            let mut buf = [0u8; 4];
            let e: &str = scalars[want.unwrap()].encode_utf8(&mut buf);
            assert!(out.as_bytes().len() == e.len(), "s[i] is not one scalar");
            for j in 0..e.len() {
                assert!(out.as_bytes()[j] == e.as_bytes()[j], "s[i] differs from Python's");
            }
            core::mem::forget(out);
        }
    } else {
        match incan_core::strings::str_char_at(s, idx) {
            Ok(out) => {
                assert!(want.is_some(), "returned a character although Python raises IndexError");
                let mut buf = [0u8; 4];
                let e: &str = scalars[want.unwrap()].encode_utf8(&mut buf);
                assert!(out.as_bytes().len() == e.len(), "s[i] is not one scalar");
                for j in 0..e.len() {
                    assert!(out.as_bytes()[j] == e.as_bytes()[j], "s[i] differs from Python's");
                }
                core::mem::forget(out);
            }
            Err(e) => {
                assert!(want.is_none(), "Err although Python returns a character");
                assert!(e == StringAccessError::IndexOutOfRange, "wrong error for an out-of-range index");
            }
        }
    }
}

pub fn str_slice_body<N: Nd>(nd: &mut N, rev: bool, k: usize, wrapper: bool, logged: bool) {
    let (s, scalars) = table(rev, k);
    let k = scalars.len();
    let start = nd.opt_i64();
    let end = nd.opt_i64();
    let step = nd.opt_i64();
    let zero = step == Some(0);
    let mut idxs = [0usize; LOG_CAP];
    let m = if zero { 0 } else { py_slice_walk(k, start, end, step.unwrap_or(1), &mut idxs) };
    vcover!(zero, "zero step");
    vcover!(m == k && step == Some(-1), "full reverse slice");
    vcover!(m >= 2 && step == Some(2), "stride-2 slice with two or more scalars");
    vcover!(m == 1 && step == Some(i64::MAX), "step i64::MAX yields exactly one scalar");
    vcover!(m == 1 && step == Some(i64::MIN), "step i64::MIN yields exactly one scalar");
    log_reset();
    let out: Option<String> = if wrapper {
        let expect = if zero { Some(IncanError::slice_step_zero()) } else { None };
        guarded(expect, || incan_stdlib::strings::str_slice(s, start, end, step))
    } else {
        match incan_core::strings::str_slice(s, start, end, step) {
            Ok(o) => {
                assert!(!zero, "Ok although the step is zero");
                Some(o)
            }
            Err(e) => {
                assert!(zero, "Err although the step is not zero");
                assert!(e == StringAccessError::SliceStepZero, "wrong error for a zero step");
                None
            }
        }
    };
    if let Some(out) = out {
        let (elems, n) = produced_chars(&out, logged);
        assert!(n == m, "string slice has a different number of scalars than Python's");
        for j in 0..m {
            assert!(elems[j] == scalars[idxs[j]] as u32, "string slice scalar differs from Python's");
        }
        core::mem::forget(out);
    }
}

// ---- range -------------------------------------------------------------------------------------------

fn same(a: [i64; 3], b: [i64; 3]) -> bool {
    a[0] == b[0] && a[1] == b[1] && a[2] == b[2]
}

fn raw(r: &incan_stdlib::iter::PyRange) -> [i64; 3] {
    assert!(core::mem::size_of::<incan_stdlib::iter::PyRange>() == 24);
    unsafe { core::mem::transmute_copy(r) }
}

fn py_range_has(cur: i128, end: i64, step: i64) -> bool {
    (step > 0 && cur < end as i128) || (step < 0 && cur > end as i128)
}

/// One inductive step of `range(a, b, c)` from an *arbitrary* state (the constructor builds exactly the
/// arbitrary state `{cur: a, end: b, step: c}`):
/// * `next()` yields `Some(a)` iff Python's range still has an element, else `None`;
/// * after `None` the state is unchanged (so it stays exhausted forever);
/// * after `Some(a)` the state is *identical* to the state of a fresh `range(a + c, b, c)` when `a + c`
///   is an `i64`, and otherwise (Python's range has no further element) it is a state from which
///   `next()` answers `None` without changing it.
/// By induction the produced sequence is Python's for runs of any length, and it terminates because
/// `|end - cur|` strictly decreases (checked in `i128`).
pub fn range_step_body<N: Nd>(nd: &mut N) {
    let a = nd.i64();
    let b = nd.i64();
    let c = nd.i64();
    nd.assume(c != 0);
    let mut r = incan_stdlib::iter::range(a, b, c);
    let before = raw(&r);
    let x1 = r.next();
    if py_range_has(a as i128, b, c) {
        assert!(x1 == Some(a), "range yields a different element than Python's");
        let n = a as i128 + c as i128;
        if n >= i64::MIN as i128 && n <= i64::MAX as i128 {
            let fresh = incan_stdlib::iter::range(n as i64, b, c);
            assert!(same(raw(&r), raw(&fresh)), "state after a step is not range(a + c, b, c)");
            let d0 = (b as i128 - a as i128).abs();
            let d1 = (b as i128 - n).abs();
            assert!(d1 < d0 || !py_range_has(n, b, c), "distance to the end does not decrease");
        } else {
            vcover!(true, "a + c leaves i64 (Python's range ends here)");
            let s = raw(&r);
            let x2 = r.next();
            assert!(x2.is_none(), "range keeps yielding after a + c left i64");
            assert!(same(raw(&r), s), "exhausted range changed state");
        }
    } else {
        assert!(x1.is_none(), "range yields an element although Python's is exhausted");
        assert!(same(raw(&r), before), "exhausted range changed state");
    }
    vcover!(c == i64::MIN && x1.is_some(), "step i64::MIN");
    vcover!(c < 0 && x1.is_some(), "negative step yields");
    vcover!(a == b, "empty range");
}

pub fn range_zero_step_body<N: Nd>(nd: &mut N) {
    let a = nd.i64();
    let b = nd.i64();
    let got = guarded(Some(IncanError::range_step_zero()), || incan_stdlib::iter::range(a, b, 0));
    assert!(got.is_none());
}

harnesses! {
    #[kani::unwind(34)]
    #[kani::stub(incan_stdlib::errors::raise, crate::env::raise_stub)]
    fn c05_list_get_l4(nd) { list_get_body::<_, 4>(nd, false) }

    #[kani::unwind(34)]
    #[kani::stub(incan_stdlib::errors::raise, crate::env::raise_stub)]
    fn c05_list_get_mut_l4(nd) { list_get_body::<_, 4>(nd, true) }

    #[kani::unwind(34)]
    #[kani::stub(incan_stdlib::errors::raise, crate::env::raise_stub)]
    #[kani::stub(alloc::vec::Vec::push, crate::env::vec_push_stub)]
    fn c05_list_slice_l4(nd) { list_slice_body::<_, 4>(nd, true) }

    #[kani::unwind(34)]
    #[kani::stub(incan_stdlib::errors::raise, crate::env::raise_stub)]
    #[kani::stub(alloc::vec::Vec::push, crate::env::vec_push_stub)]
    fn c05_list_slice_l6(nd) { list_slice_body::<_, 6>(nd, true) }

    // the REAL output Vec (validates the push-log stand-in); non-zero steps only, so that the small unwind bound suffices
    #[kani::unwind(7)]
    fn c05_list_slice_real_vec_l3(nd) { list_slice_body_z::<_, 3>(nd, false, false) }

    #[kani::unwind(34)]
    #[kani::stub(incan_stdlib::errors::raise, crate::env::raise_stub)]
    fn c05_range_step(nd) { range_step_body(nd) }

    #[kani::unwind(34)]
    #[kani::stub(incan_stdlib::errors::raise, crate::env::raise_stub)]
    fn c05_range_zero_step(nd) { range_zero_step_body(nd) }
    // ---- strings: s[i] -------------------------------------------------------------------------------
    #[kani::unwind(12)]
    fn c05_str_char_at_k0(nd) { str_char_at_body(nd, false, 0, false) }
    #[kani::unwind(12)]
    fn c05_str_char_at_k1(nd) { str_char_at_body(nd, false, 1, false) }
    #[kani::unwind(12)]
    fn c05_str_char_at_k2(nd) { str_char_at_body(nd, false, 2, false) }
    #[kani::unwind(12)]
    fn c05_str_char_at_k3(nd) { str_char_at_body(nd, false, 3, false) }
    #[kani::unwind(12)]
    fn c05_str_char_at_k4(nd) { str_char_at_body(nd, false, 4, false) }
    #[kani::unwind(12)]
    fn c05_str_char_at_rev_k4(nd) { str_char_at_body(nd, true, 4, false) }
    #[kani::unwind(14)]
    fn c05_str_char_at_k6(nd) { str_char_at_body(nd, false, 6, false) }
    #[kani::unwind(34)]
    #[kani::stub(incan_stdlib::errors::raise, crate::env::raise_stub)]
    fn c05_str_index_k4(nd) { str_char_at_body(nd, false, 4, true) }
    #[kani::unwind(34)]
    #[kani::stub(incan_stdlib::errors::raise, crate::env::raise_stub)]
    fn c05_str_index_k0(nd) { str_char_at_body(nd, false, 0, true) }
    #[kani::unwind(34)]
    #[kani::stub(incan_stdlib::errors::raise, crate::env::raise_stub)]
    fn c05_str_index_k6(nd) { str_char_at_body(nd, false, 6, true) }
    #[kani::unwind(34)]
    #[kani::stub(incan_stdlib::errors::raise, crate::env::raise_stub)]
    fn c05_str_index_mix(nd) { str_char_at_body(nd, true, 44, true) }
    #[kani::unwind(14)]
    fn c05_str_char_at_mix(nd) { str_char_at_body(nd, true, 44, false) }
    #[kani::unwind(34)]
    #[kani::stub(incan_stdlib::errors::raise, crate::env::raise_stub)]
    #[kani::stub(alloc::string::String::push, crate::env::string_push_stub)]
    fn c05_str_slice_wrapper_mix(nd) { str_slice_body(nd, true, 44, true, true) }

    // ---- strings: s[a:b:c] (output scalars logged) ---------------------------------------------------
    #[kani::unwind(12)]
    #[kani::stub(alloc::string::String::push, crate::env::string_push_stub)]
    fn c05_str_slice_k0(nd) { str_slice_body(nd, false, 0, false, true) }
    #[kani::unwind(12)]
    #[kani::stub(alloc::string::String::push, crate::env::string_push_stub)]
    fn c05_str_slice_k1(nd) { str_slice_body(nd, false, 1, false, true) }
    #[kani::unwind(12)]
    #[kani::stub(alloc::string::String::push, crate::env::string_push_stub)]
    fn c05_str_slice_k2(nd) { str_slice_body(nd, false, 2, false, true) }
    #[kani::unwind(12)]
    #[kani::stub(alloc::string::String::push, crate::env::string_push_stub)]
    fn c05_str_slice_k3(nd) { str_slice_body(nd, false, 3, false, true) }
    #[kani::unwind(12)]
    #[kani::stub(alloc::string::String::push, crate::env::string_push_stub)]
    fn c05_str_slice_k4(nd) { str_slice_body(nd, false, 4, false, true) }
    #[kani::unwind(12)]
    #[kani::stub(alloc::string::String::push, crate::env::string_push_stub)]
    fn c05_str_slice_rev_k4(nd) { str_slice_body(nd, true, 4, false, true) }
    #[kani::unwind(14)]
    #[kani::stub(alloc::string::String::push, crate::env::string_push_stub)]
    fn c05_str_slice_k6(nd) { str_slice_body(nd, false, 6, false, true) }
    #[kani::unwind(34)]
    #[kani::stub(incan_stdlib::errors::raise, crate::env::raise_stub)]
    #[kani::stub(alloc::string::String::push, crate::env::string_push_stub)]
    fn c05_str_slice_wrapper_k4(nd) { str_slice_body(nd, false, 4, true, true) }
}
