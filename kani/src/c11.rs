//! C11 (rendering kernel only) — rendering a diagnostic for the terminal never fails, whatever the span.
use crate::c19::doc;
use crate::nd::Nd;
use incan_syntax::ast::Span;
use incan_syntax::diagnostics::{CompileError, ErrorKind, format_error};

pub fn format_error_body<N: Nd, const M: usize>(nd: &mut N) {
    let mut buf = [0u8; M];
    let s = doc(nd, &mut buf);
    let start = nd.usize();
    let end = nd.usize();
    nd.assume(start <= M + 2 && end <= M + 2);
    let k = nd.u8();
    nd.assume(k < 5);
    let kind = match k {
        0 => ErrorKind::Error,
        1 => ErrorKind::Syntax,
        2 => ErrorKind::Type,
        3 => ErrorKind::Warning,
        _ => ErrorKind::Lint,
    };
    let err = CompileError { message: String::new(), span: Span::new(start, end), kind, notes: Vec::new(), hints: Vec::new() };
    vcover!(start < s.len() && !s.is_char_boundary(start), "span starting inside a scalar");
    vcover!(end < start, "reversed span");
    vcover!(start > s.len(), "span starting past the end");
    vcover!(s.len() == M && s.as_bytes()[M - 1] == b'\n' && start == M, "span at end of file after a newline");
    // The obligation is Kani's own checks on the real code: no slice off a char boundary, no index out of
    // bounds, no `col_num - 1` underflow, no overflow in the caret arithmetic, no unwrap on None.
    let out = format_error("f", s, &err);
    #[cfg(not(kani))]
    {
        assert!(out.contains("-->") && out.ends_with('\n'), "rendered diagnostic is malformed");
    }
    core::mem::forget(out);
    core::mem::forget(err);
}

harnesses! {
    #[kani::unwind(7)]
    #[kani::stub(core::slice::memchr::memchr, crate::env::memchr_stub)]
    #[kani::stub(core::slice::memchr::memrchr, crate::env::memrchr_stub)]
    #[kani::stub(core::str::count::count_chars, crate::env::count_chars_stub)]
    #[kani::stub(alloc::fmt::format, crate::env::format_stub)]
    fn c11_format_error_n3(nd) { format_error_body::<_, 3>(nd) }
    #[kani::unwind(7)]
    #[kani::stub(core::slice::memchr::memchr, crate::env::memchr_stub)]
    #[kani::stub(core::slice::memchr::memrchr, crate::env::memrchr_stub)]
    #[kani::stub(core::str::count::count_chars, crate::env::count_chars_stub)]
    #[kani::stub(alloc::fmt::format, crate::env::format_stub)]
    fn c11_format_error_n4(nd) { format_error_body::<_, 4>(nd) }
    #[kani::unwind(8)]
    #[kani::stub(core::slice::memchr::memchr, crate::env::memchr_stub)]
    #[kani::stub(core::slice::memchr::memrchr, crate::env::memrchr_stub)]
    #[kani::stub(core::str::count::count_chars, crate::env::count_chars_stub)]
    #[kani::stub(alloc::fmt::format, crate::env::format_stub)]
    fn c11_format_error_n5(nd) { format_error_body::<_, 5>(nd) }
    #[kani::unwind(9)]
    #[kani::stub(core::slice::memchr::memchr, crate::env::memchr_stub)]
    #[kani::stub(core::slice::memchr::memrchr, crate::env::memrchr_stub)]
    #[kani::stub(core::str::count::count_chars, crate::env::count_chars_stub)]
    #[kani::stub(alloc::fmt::format, crate::env::format_stub)]
    fn c11_format_error_n6(nd) { format_error_body::<_, 6>(nd) }
    #[kani::unwind(11)]
    #[kani::stub(alloc::fmt::format, crate::env::format_stub)]
    #[kani::stub(core::slice::memchr::memchr, crate::env::memchr_stub)]
    #[kani::stub(core::slice::memchr::memrchr, crate::env::memrchr_stub)]
    #[kani::stub(core::str::count::count_chars, crate::env::count_chars_stub)]
    fn c11_format_error_n8(nd) { format_error_body::<_, 8>(nd) }
    #[kani::unwind(13)]
    #[kani::stub(alloc::fmt::format, crate::env::format_stub)]
    #[kani::stub(core::slice::memchr::memchr, crate::env::memchr_stub)]
    #[kani::stub(core::slice::memchr::memrchr, crate::env::memrchr_stub)]
    #[kani::stub(core::str::count::count_chars, crate::env::count_chars_stub)]
    fn c11_format_error_n10(nd) { format_error_body::<_, 10>(nd) }
}
