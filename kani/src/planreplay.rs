//! Native evaluation of `determine_binop_plan` on concrete inputs (replay of E2-X models).
use incan::backend::ir::conversions::{BinOpEmitKind, NumericConversion, determine_binop_plan};
use incan::backend::ir::expr::{BinOp, IrExprKind, TypedExpr, UnaryOp};
use incan::backend::ir::types::IrType;

fn op(s: &str) -> BinOp {
    match s {
        "Add" => BinOp::Add, "Sub" => BinOp::Sub, "Mul" => BinOp::Mul, "Div" => BinOp::Div, "FloorDiv" => BinOp::FloorDiv,
        "Mod" => BinOp::Mod, "Pow" => BinOp::Pow, "Eq" => BinOp::Eq, "Ne" => BinOp::Ne, "Lt" => BinOp::Lt, "Le" => BinOp::Le,
        "Gt" => BinOp::Gt, "Ge" => BinOp::Ge, "And" => BinOp::And, "Or" => BinOp::Or, "BitAnd" => BinOp::BitAnd,
        "BitOr" => BinOp::BitOr, "BitXor" => BinOp::BitXor, "Shl" => BinOp::Shl, "Shr" => BinOp::Shr,
        _ => { eprintln!("unknown op {s}"); std::process::exit(2) }
    }
}
fn ty(s: &str) -> IrType {
    match s {
        "Unit" => IrType::Unit, "Bool" => IrType::Bool, "Int" => IrType::Int, "Float" => IrType::Float, "String" => IrType::String,
        "StaticStr" => IrType::StaticStr, "StaticBytes" => IrType::StaticBytes, "FrozenStr" => IrType::FrozenStr,
        "FrozenBytes" => IrType::FrozenBytes, "StrRef" => IrType::StrRef, "SelfType" => IrType::SelfType, "Unknown" => IrType::Unknown,
        _ => { eprintln!("unknown type {s}"); std::process::exit(2) }
    }
}

pub fn main(args: &[String]) {
    let o = op(&args[0]);
    let lt = ty(&args[1]);
    let rt = ty(&args[2]);
    let n: i64 = args[4].parse().expect("literal");
    let left = TypedExpr::new(IrExprKind::Unit, lt);
    let rkind = match args[3].as_str() {
        "int" => IrExprKind::Int(n),
        "negint" => IrExprKind::UnaryOp { op: UnaryOp::Neg, operand: Box::new(TypedExpr::new(IrExprKind::Int(n), IrType::Int)) },
        _ => IrExprKind::Unit,
    };
    let right = TypedExpr::new(rkind, rt);
    let r = std::panic::catch_unwind(|| determine_binop_plan(&o, &left, &right));
    match r {
        Ok(p) => {
            let c = |c: NumericConversion| match c { NumericConversion::None => "None", NumericConversion::ToFloat => "ToFloat" };
            let (ek, toks, flag) = match &p.emit {
                BinOpEmitKind::Infix { token } => ("Infix", token.to_string(), "-".to_string()),
                BinOpEmitKind::StdlibCall { path } => ("StdlibCall", path.to_string(), "-".to_string()),
                BinOpEmitKind::Pow { result_is_int } => ("Pow", String::new(), result_is_int.to_string()),
            };
            let rty = format!("{:?}", p.result_ty).split('(').next().unwrap().to_string();
            println!("PLAN lhs_conv={} rhs_conv={} result_ty={} emit={} tokens=`{}` flag={}", c(p.lhs_conv), c(p.rhs_conv), rty, ek, toks, flag);
        }
        Err(_) => println!("PANIC"),
    }
}
