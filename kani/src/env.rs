//! Environment stand-ins used by the harnesses (every one of them is part of the claim and is listed in
//! the evidence): the panic mechanism `incan_stdlib::errors::raise`, `alloc::fmt::format`, and the two
//! *output-container* logs (`String::push`, `Vec::push`) for the slice kernels.

use incan_core::errors::{ErrorKind, IncanError};

/// What the oracle says about the call that is about to be made: `None` = returns normally,
/// `Some(kind)` = stops with that error kind.
pub static mut EXPECT_RAISE: Option<IncanError<'static>> = None;

/// Stand-in for `incan_stdlib::errors::raise` under Kani. A raise the oracle does not expect is a
/// violation; an expected one ends the path (the harness asserts afterwards that no path *returns*
/// when a raise was expected).
#[cfg(kani)]
pub fn raise_stub<T: core::fmt::Display>(err: T) -> ! {
    let expect = unsafe { EXPECT_RAISE };
    assert!(expect.is_some(), "raised although Python returns a value");
    if core::mem::size_of::<T>() == core::mem::size_of::<IncanError<'static>>() {
        // All call sites under test pass an `IncanError`; compare the kind.
        let e: IncanError<'static> = unsafe { core::mem::transmute_copy(&err) };
        let want = expect.unwrap();
        assert!(e.kind() == want.kind(), "raised the wrong error kind");
        // same constructor and same arguments (index, length, container / static text) as documented
        assert!(e == want, "raised a different error (arguments/text) than the documented one");
    } else {
        assert!(false, "raised something that is not an IncanError");
    }
    kani::cover!(true, "documented raise reached");
    kani::assume(false);
    unreachable!()
}

/// Run `f`, which Python says either returns (`expect == None`) or raises the documented error `expect`
/// (compared as a value under Kani: same constructor, same index/length/container/static text; compared as
/// rendered text natively).
#[cfg(kani)]
pub fn guarded<R>(expect: Option<IncanError<'static>>, f: impl FnOnce() -> R) -> Option<R> {
    unsafe { EXPECT_RAISE = expect };
    let r = f();
    unsafe { EXPECT_RAISE = None };
    assert!(expect.is_none(), "returned although Python raises");
    Some(r)
}

#[cfg(not(kani))]
pub fn guarded<R>(expect: Option<IncanError<'static>>, f: impl FnOnce() -> R) -> Option<R> {
    let text = || expect.map(|e| e.to_string()).unwrap_or_default();
    match std::panic::catch_unwind(std::panic::AssertUnwindSafe(f)) {
        Ok(r) => {
            assert!(expect.is_none(), "returned although Python raises `{}`", text());
            Some(r)
        }
        Err(p) => {
            let msg = if let Some(s) = p.downcast_ref::<String>() {
                s.clone()
            } else if let Some(s) = p.downcast_ref::<&str>() {
                s.to_string()
            } else {
                "<non-string panic>".to_string()
            };
            match expect {
                Some(_) => {
                    let text = text();
                    assert!(msg == text, "stopped with `{msg}` instead of the documented `{text}`");
                    None
                }
                None => panic!("the real code panicked although Python returns a value: `{msg}`"),
            }
        }
    }
}

/// `alloc::fmt::format` → empty string (only where message text is not the subject).
#[cfg(kani)]
pub fn format_stub(_args: core::fmt::Arguments<'_>) -> String {
    String::new()
}

// ---- output-container logs -------------------------------------------------------------------------

pub const LOG_CAP: usize = 10;
pub static mut LOG: [u32; LOG_CAP] = [0; LOG_CAP];
pub static mut LOG_N: usize = 0;

pub fn log_reset() {
    unsafe {
        LOG_N = 0;
    }
}
fn log_put(v: u32) {
    unsafe {
        assert!(LOG_N < LOG_CAP, "more output elements than the input has");
        LOG[LOG_N] = v;
        LOG_N += 1;
    }
}

/// Stand-in for `String::push`: the pushed scalar goes to the log instead of a heap buffer.
#[cfg(kani)]
pub fn string_push_stub(_s: &mut String, ch: char) {
    log_put(ch as u32);
}

/// Stand-in for `Vec::<T>::push` with a 1-byte `T` (the list harnesses use `u8` elements).
#[cfg(kani)]
pub fn vec_push_stub<T, A: core::alloc::Allocator>(_v: &mut Vec<T, A>, value: T) {
    assert!(core::mem::size_of::<T>() == 1, "Vec::push log only models 1-byte elements");
    let b: u8 = unsafe { core::ptr::read(&value as *const T as *const u8) };
    core::mem::forget(value);
    log_put(b as u32);
}

/// The produced scalars: from the log under Kani (when `logged`), from the real `String` otherwise.
pub fn produced_chars(out: &str, logged: bool) -> ([u32; LOG_CAP], usize) {
    if cfg!(kani) && logged {
        unsafe { (LOG, LOG_N) }
    } else {
        let mut a = [0u32; LOG_CAP];
        let mut n = 0;
        for c in out.chars() {
            assert!(n < LOG_CAP, "more output elements than the input has");
            a[n] = c as u32;
            n += 1;
        }
        (a, n)
    }
}

pub fn produced_bytes(out: &[u8], logged: bool) -> ([u32; LOG_CAP], usize) {
    if cfg!(kani) && logged {
        unsafe { (LOG, LOG_N) }
    } else {
        let mut a = [0u32; LOG_CAP];
        let mut n = 0;
        for c in out.iter() {
            assert!(n < LOG_CAP, "more output elements than the input has");
            a[n] = *c as u32;
            n += 1;
        }
        (a, n)
    }
}

// ---- std search primitives -----------------------------------------------------------------------------
// `core::slice::memchr::{memchr, memrchr}` use pointer-alignment tricks (`align_offset`, word-at-a-time
// scanning) that make CBMC branch on nondeterministic alignments. The stand-ins below are the textbook
// definitions of the same functions (first / last index of a byte), i.e. semantically identical.
#[cfg(kani)]
pub fn memchr_stub(x: u8, text: &[u8]) -> Option<usize> {
    let mut i = 0;
    while i < text.len() {
        if text[i] == x {
            return Some(i);
        }
        i += 1;
    }
    None
}

#[cfg(kani)]
pub fn memrchr_stub(x: u8, text: &[u8]) -> Option<usize> {
    let mut i = text.len();
    while i > 0 {
        i -= 1;
        if text[i] == x {
            return Some(i);
        }
    }
    None
}

/// `core::str::count::count_chars`: std counts scalars word-at-a-time; the definition is "bytes that are not
/// UTF-8 continuation bytes".
#[cfg(kani)]
pub fn count_chars_stub(s: &str) -> usize {
    let b = s.as_bytes();
    let mut n = 0;
    let mut i = 0;
    while i < b.len() {
        if (b[i] & 0xC0) != 0x80 {
            n += 1;
        }
        i += 1;
    }
    n
}
