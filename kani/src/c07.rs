//! C07 — numeric result types follow the documented table (policy + adapters).
//!
//! Oracle: the table of docs/language/reference/numeric_semantics.md, typed in below as `doc_table`.
use crate::nd::Nd;
use incan::backend::ir::expr::{BinOp as IrBinOp, IrExprKind, TypedExpr, UnaryOp as IrUnaryOp};
use incan::backend::ir::types::IrType;
use incan::frontend::ast::{BinaryOp, Expr, Literal, Span, Spanned, UnaryOp};
use incan::frontend::symbols::ResolvedType;
use incan::numeric_adapters::*;
use incan_core::{NumericOp, NumericTy, PowExponentKind, needs_float_promotion, result_numeric_type};

const OPS: [NumericOp; 13] = [
    NumericOp::Add, NumericOp::Sub, NumericOp::Mul, NumericOp::Div, NumericOp::FloorDiv, NumericOp::Mod, NumericOp::Pow,
    NumericOp::Eq, NumericOp::NotEq, NumericOp::Lt, NumericOp::LtEq, NumericOp::Gt, NumericOp::GtEq,
];

fn ty(b: bool) -> NumericTy {
    if b { NumericTy::Float } else { NumericTy::Int }
}
fn pk(i: u8) -> Option<PowExponentKind> {
    match i {
        0 => None,
        1 => Some(PowExponentKind::NonNegativeIntLiteral),
        2 => Some(PowExponentKind::NegativeIntLiteral),
        3 => Some(PowExponentKind::Variable),
        _ => Some(PowExponentKind::Float),
    }
}

/// The documented table: `/` always float; `+ - * // %` float iff an operand is float; `**` int only for
/// int ** non-negative int literal; for comparisons the *operand coercion* type is float iff an operand is.
fn doc_table(op: NumericOp, l: NumericTy, r: NumericTy, p: Option<PowExponentKind>) -> NumericTy {
    let any_float = l == NumericTy::Float || r == NumericTy::Float;
    match op {
        NumericOp::Div => NumericTy::Float,
        NumericOp::Pow => {
            if !any_float && p == Some(PowExponentKind::NonNegativeIntLiteral) { NumericTy::Int } else { NumericTy::Float }
        }
        _ => {
            if any_float { NumericTy::Float } else { NumericTy::Int }
        }
    }
}

pub fn policy_body<N: Nd>(nd: &mut N) {
    let oi = nd.u8();
    nd.assume(oi < 13);
    let op = OPS[oi as usize];
    let l = ty(nd.bool());
    let r = ty(nd.bool());
    let pi = nd.u8();
    nd.assume(pi < 5);
    let p = pk(pi);
    let got = result_numeric_type(op, l, r, p);
    let want = doc_table(op, l, r, p);
    assert!(got == want, "result_numeric_type differs from the documented table");
    let (pl, pr) = needs_float_promotion(op, l, r, p);
    assert!(pl == (want == NumericTy::Float && l == NumericTy::Int), "left operand promotion is not 'exactly the Int operands of a Float result'");
    assert!(pr == (want == NumericTy::Float && r == NumericTy::Int), "right operand promotion is not 'exactly the Int operands of a Float result'");
    vcover!(op == NumericOp::Pow && want == NumericTy::Int, "int ** non-negative literal is int");
    vcover!(op == NumericOp::Div && l == NumericTy::Int && r == NumericTy::Int, "int / int");
    vcover!(op == NumericOp::GtEq && pl, "mixed comparison promotes");
}

pub fn literal_info_body<N: Nd>(nd: &mut N) {
    let is_float = nd.bool();
    let lit = nd.opt_i64();
    let got = PowExponentKind::from_literal_info(is_float, lit);
    let want = if is_float {
        PowExponentKind::Float
    } else {
        match lit {
            Some(v) if v >= 0 => PowExponentKind::NonNegativeIntLiteral,
            Some(_) => PowExponentKind::NegativeIntLiteral,
            None => PowExponentKind::Variable,
        }
    };
    assert!(got == want, "exponent classification differs from the documented one");
    vcover!(lit == Some(0) && !is_float, "literal zero exponent");
    vcover!(lit == Some(i64::MIN), "i64::MIN literal");
}

const AST_OPS: [BinaryOp; 18] = [
    BinaryOp::Add, BinaryOp::Sub, BinaryOp::Mul, BinaryOp::Div, BinaryOp::FloorDiv, BinaryOp::Mod, BinaryOp::Pow,
    BinaryOp::Eq, BinaryOp::NotEq, BinaryOp::Lt, BinaryOp::Gt, BinaryOp::LtEq, BinaryOp::GtEq,
    BinaryOp::And, BinaryOp::Or, BinaryOp::In, BinaryOp::NotIn, BinaryOp::Is,
];
/// The documented meaning of each surface operator.
fn doc_ast_op(op: BinaryOp) -> Option<NumericOp> {
    Some(match op {
        BinaryOp::Add => NumericOp::Add,
        BinaryOp::Sub => NumericOp::Sub,
        BinaryOp::Mul => NumericOp::Mul,
        BinaryOp::Div => NumericOp::Div,
        BinaryOp::FloorDiv => NumericOp::FloorDiv,
        BinaryOp::Mod => NumericOp::Mod,
        BinaryOp::Pow => NumericOp::Pow,
        BinaryOp::Eq => NumericOp::Eq,
        BinaryOp::NotEq => NumericOp::NotEq,
        BinaryOp::Lt => NumericOp::Lt,
        BinaryOp::Gt => NumericOp::Gt,
        BinaryOp::LtEq => NumericOp::LtEq,
        BinaryOp::GtEq => NumericOp::GtEq,
        _ => return None,
    })
}

const IR_OPS: [IrBinOp; 20] = [
    IrBinOp::Add, IrBinOp::Sub, IrBinOp::Mul, IrBinOp::Div, IrBinOp::FloorDiv, IrBinOp::Mod, IrBinOp::Pow,
    IrBinOp::Eq, IrBinOp::Ne, IrBinOp::Lt, IrBinOp::Le, IrBinOp::Gt, IrBinOp::Ge,
    IrBinOp::And, IrBinOp::Or, IrBinOp::BitAnd, IrBinOp::BitOr, IrBinOp::BitXor, IrBinOp::Shl, IrBinOp::Shr,
];
fn doc_ir_op(op: IrBinOp) -> Option<NumericOp> {
    Some(match op {
        IrBinOp::Add => NumericOp::Add,
        IrBinOp::Sub => NumericOp::Sub,
        IrBinOp::Mul => NumericOp::Mul,
        IrBinOp::Div => NumericOp::Div,
        IrBinOp::FloorDiv => NumericOp::FloorDiv,
        IrBinOp::Mod => NumericOp::Mod,
        IrBinOp::Pow => NumericOp::Pow,
        IrBinOp::Eq => NumericOp::Eq,
        IrBinOp::Ne => NumericOp::NotEq,
        IrBinOp::Lt => NumericOp::Lt,
        IrBinOp::Le => NumericOp::LtEq,
        IrBinOp::Gt => NumericOp::Gt,
        IrBinOp::Ge => NumericOp::GtEq,
        _ => return None,
    })
}

pub fn op_adapters_body<N: Nd>(nd: &mut N) {
    let i = nd.u8();
    nd.assume(i < 18);
    let op = AST_OPS[i as usize];
    assert!(numeric_op_from_ast(&op) == doc_ast_op(op), "surface operator mapped to a different numeric operator");
    let j = nd.u8();
    nd.assume(j < 20);
    let iop = IR_OPS[j as usize];
    assert!(numeric_op_from_ir(&iop) == doc_ir_op(iop), "IR operator mapped to a different numeric operator");
    vcover!(op == BinaryOp::Is, "non-numeric surface operator");
    vcover!(iop == IrBinOp::Shr, "non-numeric IR operator");
}

/// `numeric_ty_from_resolved` / `ir_type_to_numeric_ty`: Some exactly on Int / Float (all heap-free variants
/// and one boxed variant each; the discriminant is chosen by the solver among concrete values).
pub fn ty_adapters_body<N: Nd>(nd: &mut N) {
    let i = nd.u8();
    nd.assume(i < 10);
    let (rt, want): (ResolvedType, Option<NumericTy>) = match i {
        0 => (ResolvedType::Int, Some(NumericTy::Int)),
        1 => (ResolvedType::Float, Some(NumericTy::Float)),
        2 => (ResolvedType::Bool, None),
        3 => (ResolvedType::Str, None),
        4 => (ResolvedType::Bytes, None),
        5 => (ResolvedType::FrozenStr, None),
        6 => (ResolvedType::Unit, None),
        7 => (ResolvedType::SelfType, None),
        8 => (ResolvedType::Unknown, None),
        _ => (ResolvedType::Ref(Box::new(ResolvedType::Int)), None),
    };
    assert!(numeric_ty_from_resolved(&rt) == want, "checker type mapped to a different numeric type");
    core::mem::forget(rt);
    let j = nd.u8();
    nd.assume(j < 12);
    let (it, want): (IrType, Option<NumericTy>) = match j {
        0 => (IrType::Int, Some(NumericTy::Int)),
        1 => (IrType::Float, Some(NumericTy::Float)),
        2 => (IrType::Bool, None),
        3 => (IrType::Unit, None),
        4 => (IrType::String, None),
        5 => (IrType::StaticStr, None),
        6 => (IrType::StrRef, None),
        7 => (IrType::FrozenStr, None),
        8 => (IrType::SelfType, None),
        9 => (IrType::Unknown, None),
        10 => (IrType::Ref(Box::new(IrType::Int)), None),
        _ => (IrType::Option(Box::new(IrType::Float)), None),
    };
    assert!(ir_type_to_numeric_ty(&it) == want, "IR type mapped to a different numeric type");
    core::mem::forget(it);
    vcover!(i == 9 && j == 11, "boxed non-numeric types");
}

fn sp<T>(node: T) -> Spanned<T> {
    Spanned { node, span: Span::default() }
}

fn want_kind(is_float: bool, lit: Option<i128>) -> PowExponentKind {
    if is_float {
        PowExponentKind::Float
    } else {
        match lit {
            Some(v) if v >= 0 => PowExponentKind::NonNegativeIntLiteral,
            Some(_) => PowExponentKind::NegativeIntLiteral,
            None => PowExponentKind::Variable,
        }
    }
}

/// Exponent classification on the surface syntax, one concrete expression *shape* per call; the literal
/// (any non-negative i64, as the lexer produces) and the exponent's static type are symbolic.
pub fn pow_ast_body<N: Nd>(nd: &mut N, shape: u8) {
    let n = nd.i64();
    nd.assume(n >= 0);
    let is_float = nd.bool();
    let t = if is_float { ResolvedType::Float } else { ResolvedType::Int };
    let int = |v: i64| sp(Expr::Literal(Literal::Int(v)));
    let (e, lit): (Spanned<Expr>, Option<i128>) = match shape {
        0 => (int(n), Some(n as i128)),
        1 => (sp(Expr::Unary(UnaryOp::Neg, Box::new(int(n)))), Some(-(n as i128))),
        2 => (sp(Expr::Paren(Box::new(int(n)))), Some(n as i128)),
        3 => (sp(Expr::Paren(Box::new(sp(Expr::Unary(UnaryOp::Neg, Box::new(int(n))))))), Some(-(n as i128))),
        4 => (sp(Expr::Paren(Box::new(sp(Expr::Paren(Box::new(int(n))))))), Some(n as i128)),
        5 => (sp(Expr::SelfExpr), None),
        6 => (sp(Expr::Literal(Literal::Bool(true))), None),
        _ => (sp(Expr::Unary(UnaryOp::Not, Box::new(int(n)))), None),
    };
    let got = pow_exponent_kind_from_ast(&e, &t);
    assert!(got == want_kind(is_float, lit), "exponent classified differently from the documented rule");
    vcover!(n == 0 && !is_float, "zero literal");
    vcover!(n == i64::MAX && !is_float, "largest literal");
    core::mem::forget(e);
    core::mem::forget(t);
}

pub fn pow_ir_body<N: Nd>(nd: &mut N, shape: u8) {
    let n = nd.i64();
    nd.assume(n >= 0);
    let is_float = nd.bool();
    let t = || if is_float { IrType::Float } else { IrType::Int };
    let int = |v: i64| TypedExpr::new(IrExprKind::Int(v), IrType::Int);
    let (e, lit): (TypedExpr, Option<i128>) = match shape {
        0 => (TypedExpr::new(IrExprKind::Int(n), t()), Some(n as i128)),
        1 => (TypedExpr::new(IrExprKind::UnaryOp { op: IrUnaryOp::Neg, operand: Box::new(int(n)) }, t()), Some(-(n as i128))),
        2 => (TypedExpr::new(IrExprKind::Bool(true), t()), None),
        3 => (TypedExpr::new(IrExprKind::UnaryOp { op: IrUnaryOp::Not, operand: Box::new(int(n)) }, t()), None),
        _ => (TypedExpr::new(IrExprKind::Unit, t()), None),
    };
    let got = pow_exponent_kind_from_ir(&e);
    assert!(got == want_kind(is_float, lit), "IR exponent classified differently from the documented rule");
    vcover!(n == 0 && !is_float, "zero literal");
    core::mem::forget(e);
}

harnesses! {
    #[kani::unwind(2)]
    fn c07_policy_table(nd) { policy_body(nd) }
    #[kani::unwind(2)]
    fn c07_literal_info(nd) { literal_info_body(nd) }
    #[kani::unwind(2)]
    fn c07_op_adapters(nd) { op_adapters_body(nd) }
    #[kani::unwind(2)]
    fn c07_ty_adapters(nd) { ty_adapters_body(nd) }
    #[kani::unwind(5)]
    fn c07_pow_ast_int(nd) { pow_ast_body(nd, 0) }
    #[kani::unwind(5)]
    fn c07_pow_ast_neg_int(nd) { pow_ast_body(nd, 1) }
    #[kani::unwind(5)]
    fn c07_pow_ast_paren_int(nd) { pow_ast_body(nd, 2) }
    #[kani::unwind(5)]
    fn c07_pow_ast_paren_neg_int(nd) { pow_ast_body(nd, 3) }
    #[kani::unwind(5)]
    fn c07_pow_ast_paren2_int(nd) { pow_ast_body(nd, 4) }
    #[kani::unwind(5)]
    fn c07_pow_ast_self(nd) { pow_ast_body(nd, 5) }
    #[kani::unwind(5)]
    fn c07_pow_ast_bool(nd) { pow_ast_body(nd, 6) }
    #[kani::unwind(5)]
    fn c07_pow_ast_not_int(nd) { pow_ast_body(nd, 7) }
    #[kani::unwind(5)]
    fn c07_pow_ir_int(nd) { pow_ir_body(nd, 0) }
    #[kani::unwind(5)]
    fn c07_pow_ir_neg_int(nd) { pow_ir_body(nd, 1) }
    #[kani::unwind(5)]
    fn c07_pow_ir_bool(nd) { pow_ir_body(nd, 2) }
    #[kani::unwind(5)]
    fn c07_pow_ir_not_int(nd) { pow_ir_body(nd, 3) }
}
