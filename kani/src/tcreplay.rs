//! Native type-check of a source file through the public API (replay of typechecker-slice models).
pub fn main(args: &[String]) {
    let src = std::fs::read_to_string(&args[0]).expect("readable source file");
    let r = std::panic::catch_unwind(|| {
        let tokens = match incan::lexer::lex(&src) {
            Ok(t) => t,
            Err(e) => return format!("LEX-ERROR {}", e.len()),
        };
        let program = match incan::parser::parse(&tokens) {
            Ok(p) => p,
            Err(e) => return format!("PARSE-ERROR {}: {}", e.len(), e.iter().map(|x| x.message.clone()).collect::<Vec<_>>().join(" | ")),
        };
        match incan::typechecker::check(&program) {
            Ok(()) => "ACCEPTED".to_string(),
            Err(e) => format!("REJECTED {}: {}", e.len(), e.iter().map(|x| x.message.clone()).collect::<Vec<_>>().join(" | ")),
        }
    });
    match r {
        Ok(s) => println!("{s}"),
        Err(_) => println!("PANIC"),
    }
}

/// Lex, parse, type-check and generate Rust for a source file through the public API; prints the generated Rust.
pub fn emit_main(args: &[String]) {
    let src = std::fs::read_to_string(&args[0]).expect("readable source file");
    let r = std::panic::catch_unwind(|| {
        let tokens = incan::lexer::lex(&src).map_err(|e| format!("LEX-ERROR {}", e.len()))?;
        let program = incan::parser::parse(&tokens).map_err(|e| format!("PARSE-ERROR {}", e.len()))?;
        if let Err(e) = incan::typechecker::check(&program) {
            return Err(format!("REJECTED {}: {}", e.len(), e.iter().map(|x| x.message.clone()).collect::<Vec<_>>().join(" | ")));
        }
        incan::IrCodegen::new().try_generate(&program).map_err(|e| format!("CODEGEN-ERROR {e:?}"))
    });
    match r {
        Ok(Ok(s)) => println!("RUST-BEGIN\n{s}\nRUST-END"),
        Ok(Err(e)) => println!("{e}"),
        Err(_) => println!("PANIC"),
    }
}
