//! Native type-check of a source file through the public API (replay of typechecker-slice models).
pub fn main(args: &[String]) {
    let src = std::fs::read_to_string(&args[0]).expect("readable source file");
    let r = std::panic::catch_unwind(|| {
        let tokens = match incan::lexer::lex(&src) {
            Ok(t) => t,
            Err(e) => return format!("LEX-ERROR {}", e.len()),
        };
        let program = match incan::parser::parse(&tokens) {
            Ok(p) => p,
            Err(e) => return format!("PARSE-ERROR {}: {}", e.len(), e.iter().map(|x| x.message.clone()).collect::<Vec<_>>().join(" | ")),
        };
        match incan::typechecker::check(&program) {
            Ok(()) => "ACCEPTED".to_string(),
            Err(e) => format!("REJECTED {}: {}", e.len(), e.iter().map(|x| x.message.clone()).collect::<Vec<_>>().join(" | ")),
        }
    });
    match r {
        Ok(s) => println!("{s}"),
        Err(_) => println!("PANIC"),
    }
}

/// `visibility`: a fixed battery of `from m import x` scenarios through the public `TypeChecker::check_with_imports` (replay of the
/// import-visibility obligation): prints `VIS <scenario> ACCEPTED|REJECTED ..`.
pub fn visibility_main(_args: &[String]) {
    let dep_src = "pub def pub_fn() -> int:\n    return 1\n\ndef private_fn() -> int:\n    return 2\n\npub model PubType:\n    x: int\n\nconst PRIVATE_CONST: int = 3\n\npub enum Color:\n    Red\n    Green\n\ntrait Hidden:\n    def hidden(self) -> int: ...\n\npub trait Shown:\n    def shown(self) -> int: ...\n\nmodel HiddenModel:\n    y: int\n";
    let scenarios: [(&str, &str, &str); 12] = [
        ("private_trait_use", "lib", "from lib import pub_fn\n\nclass Thing with Hidden:\n    x: int\n\n    def hidden(self) -> int:\n        return 1\n"),
        ("pub_trait_use", "lib", "from lib import pub_fn\n\nclass Thing with Shown:\n    x: int\n\n    def shown(self) -> int:\n        return 1\n"),
        ("private_model_use", "lib", "from lib import pub_fn\n\ndef f(m: HiddenModel) -> int:\n    return 1\n"),
        ("pub_fn", "lib", "from lib import pub_fn\n\ndef main() -> None:\n    print(pub_fn())\n"),
        ("private_fn", "lib", "from lib import private_fn\n\ndef main() -> None:\n    pass\n"),
        ("pub_type", "lib", "from lib import PubType\n\ndef main() -> None:\n    pass\n"),
        ("private_const", "lib", "from lib import PRIVATE_CONST\n\ndef main() -> None:\n    pass\n"),
        ("pub_variant", "lib", "from lib import Red\n\ndef main() -> None:\n    pass\n"),
        ("mixed", "lib", "from lib import pub_fn, private_fn\n\ndef main() -> None:\n    pass\n"),
        ("nested_private", "a_b", "from a.b import private_fn\n\ndef main() -> None:\n    pass\n"),
        ("nested_pub", "a_b", "from a.b import pub_fn\n\ndef main() -> None:\n    print(pub_fn())\n"),
        ("unknown_module", "lib", "from elsewhere import private_fn\n\ndef main() -> None:\n    pass\n"),
    ];
    for (name, dep_name, main_src) in scenarios {
        let r = std::panic::catch_unwind(|| {
            let dt = incan::lexer::lex(dep_src).map_err(|e| format!("DEP-LEX-ERROR {}", e.len()))?;
            let dep = incan::parser::parse(&dt).map_err(|e| format!("DEP-PARSE-ERROR {}: {}", e.len(), e[0].message))?;
            let mt = incan::lexer::lex(main_src).map_err(|e| format!("LEX-ERROR {}", e.len()))?;
            let main = incan::parser::parse(&mt).map_err(|e| format!("PARSE-ERROR {}: {}", e.len(), e[0].message))?;
            let mut tc = incan::typechecker::TypeChecker::new();
            match tc.check_with_imports(&main, &[(dep_name, &dep)]) {
                Ok(()) => Ok("ACCEPTED".to_string()),
                Err(e) => {
                    let vis = e.iter().filter(|x| x.message.contains("private or not exported")).count();
                    Ok(format!("REJECTED {} visibility={}: {}", e.len(), vis, e.iter().map(|x| x.message.clone()).collect::<Vec<_>>().join(" | ")))
                }
            }
        });
        match r {
            Ok(Ok(s)) | Ok(Err(s)) => println!("VIS {name} {s}"),
            Err(_) => println!("VIS {name} PANIC"),
        }
    }
}

/// `constval <file> <name>..`: type-check the file and print what the const evaluator folded for each named const
/// (`CONST <name> <Debug of the value>` or `CONST <name> -`), through the public `TypeChecker::type_info().const_value()`.
pub fn const_main(args: &[String]) {
    let src = std::fs::read_to_string(&args[0]).expect("readable source file");
    let names: Vec<String> = args[1..].to_vec();
    let r = std::panic::catch_unwind(|| {
        let tokens = incan::lexer::lex(&src).map_err(|e| format!("LEX-ERROR {}", e.len()))?;
        let program = incan::parser::parse(&tokens).map_err(|e| format!("PARSE-ERROR {}", e.len()))?;
        let mut tc = incan::typechecker::TypeChecker::new();
        if let Err(e) = tc.check_program(&program) {
            return Err(format!("REJECTED {}: {}", e.len(), e.iter().map(|x| x.message.clone()).collect::<Vec<_>>().join(" | ")));
        }
        let mut out = Vec::new();
        for n in &names {
            match tc.type_info().const_value(n) {
                Some(v) => out.push(format!("CONST {n} {v:?}")),
                None => out.push(format!("CONST {n} -")),
            }
        }
        Ok(out.join("\n"))
    });
    match r {
        Ok(Ok(s)) => println!("{s}"),
        Ok(Err(e)) => println!("{e}"),
        Err(_) => println!("PANIC"),
    }
}

/// Lex, parse, type-check and generate Rust for a source file through the public API; prints the generated Rust.
pub fn emit_main(args: &[String]) {
    let src = std::fs::read_to_string(&args[0]).expect("readable source file");
    let r = std::panic::catch_unwind(|| {
        let tokens = incan::lexer::lex(&src).map_err(|e| format!("LEX-ERROR {}", e.len()))?;
        let program = incan::parser::parse(&tokens).map_err(|e| format!("PARSE-ERROR {}", e.len()))?;
        if let Err(e) = incan::typechecker::check(&program) {
            return Err(format!("REJECTED {}: {}", e.len(), e.iter().map(|x| x.message.clone()).collect::<Vec<_>>().join(" | ")));
        }
        incan::IrCodegen::new().try_generate(&program).map_err(|e| format!("CODEGEN-ERROR {e:?}"))
    });
    match r {
        Ok(Ok(s)) => println!("RUST-BEGIN\n{s}\nRUST-END"),
        Ok(Err(e)) => println!("{e}"),
        Err(_) => println!("PANIC"),
    }
}

fn sx(e: &incan::ast::Expr) -> String {
    use incan::ast::{Expr, Literal, UnaryOp};
    match e {
        Expr::Ident(n) => n.clone(),
        Expr::Literal(Literal::Int(n)) => n.to_string(),
        Expr::Literal(l) => format!("{l:?}"),
        Expr::Binary(l, op, r) => format!("({op:?} {} {})", sx(&l.node), sx(&r.node)),
        Expr::Unary(UnaryOp::Neg, x) => format!("(Neg {})", sx(&x.node)),
        Expr::Unary(UnaryOp::Not, x) => format!("(Not {})", sx(&x.node)),
        Expr::Paren(x) => format!("(Paren {})", sx(&x.node)),
        Expr::Index(o, i) => format!("(Index {} {})", sx(&o.node), sx(&i.node)),
        Expr::Slice(t, s) => {
            let p = |o: &Option<Box<incan::ast::Spanned<Expr>>>| o.as_ref().map(|x| sx(&x.node)).unwrap_or_else(|| "None".to_string());
            format!("(Slice {} {} {} {})", sx(&t.node), p(&s.start), p(&s.end), p(&s.step))
        }
        other => format!("<{}>", format!("{other:?}").split('(').next().unwrap_or("?")),
    }
}

/// `astdump <file>`: parse the file; for every function print `AST <name> <s-expression of its first return / expression statement>`.
pub fn ast_main(args: &[String]) {
    use incan::ast::{Declaration, Statement};
    let src = std::fs::read_to_string(&args[0]).expect("readable source file");
    let r = std::panic::catch_unwind(|| {
        let tokens = incan::lexer::lex(&src).map_err(|e| format!("LEX-ERROR {}", e.len()))?;
        let program = incan::parser::parse(&tokens)
            .map_err(|e| format!("PARSE-ERROR {}: {}", e.len(), e.iter().map(|x| x.message.clone()).collect::<Vec<_>>().join(" | ")))?;
        let mut out = Vec::new();
        for d in &program.declarations {
            if let Declaration::Function(f) = &d.node {
                for st in &f.body {
                    match &st.node {
                        Statement::Return(Some(e)) | Statement::Expr(e) => {
                            out.push(format!("AST {} {}", f.name, sx(&e.node)));
                            break;
                        }
                        _ => {}
                    }
                }
            }
        }
        Ok::<_, String>(out.join("\n"))
    });
    match r {
        Ok(Ok(s)) => println!("{s}"),
        Ok(Err(e)) => println!("{e}"),
        Err(_) => println!("PANIC"),
    }
}
