//! Native type-check of a source file through the public API (replay of typechecker-slice models).
pub fn main(args: &[String]) {
    let src = std::fs::read_to_string(&args[0]).expect("readable source file");
    let r = std::panic::catch_unwind(|| {
        let tokens = match incan::lexer::lex(&src) {
            Ok(t) => t,
            Err(e) => return format!("LEX-ERROR {}", e.len()),
        };
        let program = match incan::parser::parse(&tokens) {
            Ok(p) => p,
            Err(e) => return format!("PARSE-ERROR {}: {}", e.len(), e.iter().map(|x| x.message.clone()).collect::<Vec<_>>().join(" | ")),
        };
        match incan::typechecker::check(&program) {
            Ok(()) => "ACCEPTED".to_string(),
            Err(e) => format!("REJECTED {}: {}", e.len(), e.iter().map(|x| x.message.clone()).collect::<Vec<_>>().join(" | ")),
        }
    });
    match r {
        Ok(s) => println!("{s}"),
        Err(_) => println!("PANIC"),
    }
}

/// `visibility`: a fixed battery of `from m import x` scenarios through the public `TypeChecker::check_with_imports` (replay of the
/// import-visibility obligation): prints `VIS <scenario> ACCEPTED|REJECTED ..`.
pub fn visibility_main(_args: &[String]) {
    let dep_src = "pub def pub_fn() -> int:\n    return 1\n\ndef private_fn() -> int:\n    return 2\n\npub model PubType:\n    x: int\n\nconst PRIVATE_CONST: int = 3\n\npub enum Color:\n    Red\n    Green\n\ntrait Hidden:\n    def hidden(self) -> int: ...\n\npub trait Shown:\n    def shown(self) -> int: ...\n\nmodel HiddenModel:\n    y: int\n";
    let scenarios: [(&str, &str, &str); 12] = [
        ("private_trait_use", "lib", "from lib import pub_fn\n\nclass Thing with Hidden:\n    x: int\n\n    def hidden(self) -> int:\n        return 1\n"),
        ("pub_trait_use", "lib", "from lib import pub_fn\n\nclass Thing with Shown:\n    x: int\n\n    def shown(self) -> int:\n        return 1\n"),
        ("private_model_use", "lib", "from lib import pub_fn\n\ndef f(m: HiddenModel) -> int:\n    return 1\n"),
        ("pub_fn", "lib", "from lib import pub_fn\n\ndef main() -> None:\n    print(pub_fn())\n"),
        ("private_fn", "lib", "from lib import private_fn\n\ndef main() -> None:\n    pass\n"),
        ("pub_type", "lib", "from lib import PubType\n\ndef main() -> None:\n    pass\n"),
        ("private_const", "lib", "from lib import PRIVATE_CONST\n\ndef main() -> None:\n    pass\n"),
        ("pub_variant", "lib", "from lib import Red\n\ndef main() -> None:\n    pass\n"),
        ("mixed", "lib", "from lib import pub_fn, private_fn\n\ndef main() -> None:\n    pass\n"),
        ("nested_private", "a_b", "from a.b import private_fn\n\ndef main() -> None:\n    pass\n"),
        ("nested_pub", "a_b", "from a.b import pub_fn\n\ndef main() -> None:\n    print(pub_fn())\n"),
        ("unknown_module", "lib", "from elsewhere import private_fn\n\ndef main() -> None:\n    pass\n"),
    ];
    for (name, dep_name, main_src) in scenarios {
        let r = std::panic::catch_unwind(|| {
            let dt = incan::lexer::lex(dep_src).map_err(|e| format!("DEP-LEX-ERROR {}", e.len()))?;
            let dep = incan::parser::parse(&dt).map_err(|e| format!("DEP-PARSE-ERROR {}: {}", e.len(), e[0].message))?;
            let mt = incan::lexer::lex(main_src).map_err(|e| format!("LEX-ERROR {}", e.len()))?;
            let main = incan::parser::parse(&mt).map_err(|e| format!("PARSE-ERROR {}: {}", e.len(), e[0].message))?;
            let mut tc = incan::typechecker::TypeChecker::new();
            match tc.check_with_imports(&main, &[(dep_name, &dep)]) {
                Ok(()) => Ok("ACCEPTED".to_string()),
                Err(e) => {
                    let vis = e.iter().filter(|x| x.message.contains("private or not exported")).count();
                    Ok(format!("REJECTED {} visibility={}: {}", e.len(), vis, e.iter().map(|x| x.message.clone()).collect::<Vec<_>>().join(" | ")))
                }
            }
        });
        match r {
            Ok(Ok(s)) | Ok(Err(s)) => println!("VIS {name} {s}"),
            Err(_) => println!("VIS {name} PANIC"),
        }
    }
}

/// `constval <file> <name>..`: type-check the file and print what the const evaluator folded for each named const
/// (`CONST <name> <Debug of the value>` or `CONST <name> -`), through the public `TypeChecker::type_info().const_value()`.
pub fn const_main(args: &[String]) {
    let src = std::fs::read_to_string(&args[0]).expect("readable source file");
    let names: Vec<String> = args[1..].to_vec();
    let r = std::panic::catch_unwind(|| {
        let tokens = incan::lexer::lex(&src).map_err(|e| format!("LEX-ERROR {}", e.len()))?;
        let program = incan::parser::parse(&tokens).map_err(|e| format!("PARSE-ERROR {}", e.len()))?;
        let mut tc = incan::typechecker::TypeChecker::new();
        if let Err(e) = tc.check_program(&program) {
            return Err(format!("REJECTED {}: {}", e.len(), e.iter().map(|x| x.message.clone()).collect::<Vec<_>>().join(" | ")));
        }
        let mut out = Vec::new();
        for n in &names {
            match tc.type_info().const_value(n) {
                Some(v) => out.push(format!("CONST {n} {v:?}")),
                None => out.push(format!("CONST {n} -")),
            }
        }
        Ok(out.join("\n"))
    });
    match r {
        Ok(Ok(s)) => println!("{s}"),
        Ok(Err(e)) => println!("{e}"),
        Err(_) => println!("PANIC"),
    }
}

/// Lex, parse, type-check and generate Rust for a source file through the public API; prints the generated Rust.
pub fn emit_main(args: &[String]) {
    let src = std::fs::read_to_string(&args[0]).expect("readable source file");
    let r = std::panic::catch_unwind(|| {
        let tokens = incan::lexer::lex(&src).map_err(|e| format!("LEX-ERROR {}", e.len()))?;
        let program = incan::parser::parse(&tokens).map_err(|e| format!("PARSE-ERROR {}", e.len()))?;
        if let Err(e) = incan::typechecker::check(&program) {
            return Err(format!("REJECTED {}: {}", e.len(), e.iter().map(|x| x.message.clone()).collect::<Vec<_>>().join(" | ")));
        }
        incan::IrCodegen::new().try_generate(&program).map_err(|e| format!("CODEGEN-ERROR {e:?}"))
    });
    match r {
        Ok(Ok(s)) => println!("RUST-BEGIN\n{s}\nRUST-END"),
        Ok(Err(e)) => println!("{e}"),
        Err(_) => println!("PANIC"),
    }
}

fn sx(e: &incan::ast::Expr) -> String {
    use incan::ast::{Expr, Literal, UnaryOp};
    match e {
        Expr::Ident(n) => n.clone(),
        Expr::Literal(Literal::Int(n)) => n.to_string(),
        Expr::Literal(l) => format!("{l:?}"),
        Expr::Binary(l, op, r) => format!("({op:?} {} {})", sx(&l.node), sx(&r.node)),
        Expr::Unary(UnaryOp::Neg, x) => format!("(Neg {})", sx(&x.node)),
        Expr::Unary(UnaryOp::Not, x) => format!("(Not {})", sx(&x.node)),
        Expr::Paren(x) => format!("(Paren {})", sx(&x.node)),
        Expr::Index(o, i) => format!("(Index {} {})", sx(&o.node), sx(&i.node)),
        Expr::Slice(t, s) => {
            let p = |o: &Option<Box<incan::ast::Spanned<Expr>>>| o.as_ref().map(|x| sx(&x.node)).unwrap_or_else(|| "None".to_string());
            format!("(Slice {} {} {} {})", sx(&t.node), p(&s.start), p(&s.end), p(&s.step))
        }
        other => format!("<{}>", format!("{other:?}").split('(').next().unwrap_or("?")),
    }
}

/// `astdump <file>`: parse the file; for every function print `AST <name> <s-expression of its first return / expression statement>`.
pub fn ast_main(args: &[String]) {
    use incan::ast::{Declaration, Statement};
    let src = std::fs::read_to_string(&args[0]).expect("readable source file");
    let r = std::panic::catch_unwind(|| {
        let tokens = incan::lexer::lex(&src).map_err(|e| format!("LEX-ERROR {}", e.len()))?;
        let program = incan::parser::parse(&tokens)
            .map_err(|e| format!("PARSE-ERROR {}: {}", e.len(), e.iter().map(|x| x.message.clone()).collect::<Vec<_>>().join(" | ")))?;
        let mut out = Vec::new();
        for d in &program.declarations {
            if let Declaration::Function(f) = &d.node {
                for st in &f.body {
                    match &st.node {
                        Statement::Return(Some(e)) | Statement::Expr(e) => {
                            out.push(format!("AST {} {}", f.name, sx(&e.node)));
                            break;
                        }
                        _ => {}
                    }
                }
            }
        }
        Ok::<_, String>(out.join("\n"))
    });
    match r {
        Ok(Ok(s)) => println!("{s}"),
        Ok(Err(e)) => println!("{e}"),
        Err(_) => println!("PANIC"),
    }
}

// ---- formatter obligations (C08 / C09): span-insensitive views of the AST --------------------------------------------------
/// `{:?}` of an AST value with every `Span { start: N, end: M }` replaced by `_` (positions are not part of a program's meaning).
pub fn strip_spans(s: &str) -> String {
    let pat = "Span { start: ";
    let mut out = String::with_capacity(s.len());
    let mut rest = s;
    while let Some(i) = rest.find(pat) {
        out.push_str(&rest[..i]);
        match rest[i..].find('}') {
            Some(j) => {
                out.push('_');
                rest = &rest[i + j + 1..];
            }
            None => {
                out.push_str(&rest[i..]);
                rest = "";
            }
        }
    }
    out.push_str(rest);
    out
}

fn split_cases(text: &str) -> Vec<(String, String, String)> {
    // cases are introduced by a line `#@@ <id> <kind>`; the case's source is everything up to the next marker
    let mut cases = Vec::new();
    let mut cur: Option<(String, String, String)> = None;
    for line in text.split_inclusive('\n') {
        if let Some(h) = line.strip_prefix("#@@ ") {
            if let Some(c) = cur.take() {
                cases.push(c);
            }
            let mut it = h.split_whitespace();
            let id = it.next().unwrap_or("?").to_string();
            let kind = it.next().unwrap_or("program").to_string();
            cur = Some((id, kind, String::new()));
        } else if let Some(c) = cur.as_mut() {
            c.2.push_str(line);
        }
    }
    if let Some(c) = cur.take() {
        cases.push(c);
    }
    cases
}

fn parse_src(src: &str) -> Result<incan::ast::Program, String> {
    let tokens = incan::lexer::lex(src).map_err(|e| format!("LEX-ERROR {}: {}", e.len(), e.iter().map(|x| x.message.clone()).collect::<Vec<_>>().join(" | ")))?;
    incan::parser::parse(&tokens).map_err(|e| format!("PARSE-ERROR {}: {}", e.len(), e.iter().map(|x| x.message.clone()).collect::<Vec<_>>().join(" | ")))
}

fn view(program: &incan::ast::Program, kind: &str) -> Result<String, String> {
    use incan::ast::{Declaration, Expr, Statement};
    let first_fn = || {
        program.declarations.iter().find_map(|d| if let Declaration::Function(f) = &d.node { Some(f) } else { None }).ok_or_else(|| "NO-FUNCTION".to_string())
    };
    let s = match kind {
        "program" => format!("{:?}", program.declarations),
        "decl" => format!("{:?}", program.declarations.first().map(|d| &d.node)),
        "body" => format!("{:?}", first_fn()?.body),
        "stmt" => format!("{:?}", first_fn()?.body.first().map(|s| &s.node)),
        "params" => format!("{:?}", first_fn()?.params),
        "type" => format!("{:?}", first_fn()?.return_type.node),
        "decorator" => format!("{:?}", first_fn()?.decorators.first().map(|d| &d.node)),
        "method" | "field" => {
            let m = program
                .declarations
                .iter()
                .find_map(|d| if let Declaration::Model(m) = &d.node { Some(m) } else { None })
                .ok_or_else(|| "NO-MODEL".to_string())?;
            if kind == "method" {
                format!("{:?}", m.methods.first().map(|x| &x.node))
            } else {
                format!("{:?}", m.fields.first().map(|x| &x.node))
            }
        }
        "expr" | "pattern" | "arm" => {
            let f = first_fn()?;
            let e = match f.body.first().map(|s| &s.node) {
                Some(Statement::Assignment(a)) => &a.value.node,
                Some(Statement::Expr(e)) => &e.node,
                Some(Statement::Return(Some(e))) => &e.node,
                other => return Err(format!("NO-EXPR {:?}", other.map(|_| "other statement"))),
            };
            match (kind, e) {
                ("expr", e) => format!("{e:?}"),
                ("pattern", Expr::Match(_, arms)) => format!("{:?}", arms.first().map(|a| &a.node.pattern.node)),
                ("arm", Expr::Match(_, arms)) => format!("{:?}", arms.iter().map(|a| &a.node).collect::<Vec<_>>()),
                _ => return Err("NO-MATCH".to_string()),
            }
        }
        _ => return Err("BAD-KIND".to_string()),
    };
    Ok(strip_spans(&s))
}

/// `astdbg <file>`: for every `#@@ <id> <kind>` case parse the text and print `CASE <id> OK <span-free Debug of the selected node>`
/// (or `CASE <id> ERR <why>`).
pub fn astdbg_main(args: &[String]) {
    let text = std::fs::read_to_string(&args[0]).expect("readable case file");
    for (id, kind, src) in split_cases(&text) {
        let r = std::panic::catch_unwind(|| parse_src(&src).and_then(|p| view(&p, &kind)));
        match r {
            Ok(Ok(s)) => println!("CASE {id} OK {s}"),
            Ok(Err(e)) => println!("CASE {id} ERR {}", e.replace('\n', " ")),
            Err(_) => println!("CASE {id} ERR PANIC"),
        }
    }
}

/// `fmtrt <file>`: for every case (a whole program) run the real pipeline  text -> parse -> format -> parse  and report whether the
/// re-parsed program is the same program (span-free AST equality), whether formatting the output again changes it, and whether
/// `check_formatted` agrees with that:  `CASE <id> SAME|DIFF|SRC-ERR|OUT-ERR|FMT-ERR [NONIDEM] [CHECK-DISAGREES] | <details>`.
pub fn fmtrt_main(args: &[String]) {
    let text = std::fs::read_to_string(&args[0]).expect("readable case file");
    for (id, _kind, src) in split_cases(&text) {
        let r = std::panic::catch_unwind(|| {
            let p1 = match parse_src(&src) {
                Ok(p) => p,
                Err(e) => return format!("SRC-ERR | {e}"),
            };
            let out = match incan::format_source(&src) {
                Ok(o) => o,
                Err(e) => return format!("FMT-ERR | {e:?}"),
            };
            let shown = out.replace('\\', "\\\\").replace('\n', "\\n");
            let p2 = match parse_src(&out) {
                Ok(p) => p,
                Err(e) => return format!("OUT-ERR | {e} | output: {shown}"),
            };
            let (a, b) = (strip_spans(&format!("{:?}", p1.declarations)), strip_spans(&format!("{:?}", p2.declarations)));
            let mut flags = String::new();
            match incan::format_source(&out) {
                Ok(o2) if o2 == out => {}
                Ok(o2) => flags.push_str(&format!(" NONIDEM[{}]", o2.replace('\\', "\\\\").replace('\n', "\\n"))),
                Err(_) => flags.push_str(" NONIDEM[error]"),
            }
            match incan::check_formatted(&out) {
                Ok(true) => {}
                _ => flags.push_str(" CHECK-DISAGREES"),
            }
            if a == b {
                format!("SAME{flags} | output: {shown}")
            } else {
                format!("DIFF{flags} | output: {shown} | before: {a} | after: {b}")
            }
        });
        match r {
            Ok(s) => println!("CASE {id} {s}"),
            Err(_) => println!("CASE {id} PANIC"),
        }
    }
}

/// `fmtcli <scratch-dir>`: the `incan fmt` command function on real files (replay of X-format_files / X-check_formatted):
/// prints `OK <scenario>` or `BROKEN <scenario> <why>`.
pub fn fmtcli_main(args: &[String]) {
    use incan::cli::commands::format_files;
    let dir = std::path::PathBuf::from(args.first().cloned().unwrap_or_else(|| "/verif/work/fmtcli".to_string())).join(format!("run-{}", std::process::id()));
    let _ = std::fs::remove_dir_all(&dir);
    std::fs::create_dir_all(&dir).expect("scratch dir");
    let unformatted = "def  f( a:int )->int:\n  return   a+1\n";
    let formatted = incan::format_source(unformatted).expect("formats");
    let report = |name: &str, problems: Vec<String>| {
        if problems.is_empty() {
            println!("OK {name}");
        } else {
            println!("BROKEN {name} {}", problems.join("; "));
        }
    };
    for (name, check, diff) in [("check", true, false), ("diff", false, true), ("check+diff", true, true)] {
        let p = dir.join(format!("{}.incn", name.replace('+', "_")));
        std::fs::write(&p, unformatted).unwrap();
        let r = format_files(p.to_str().unwrap(), check, diff);
        let mut problems = Vec::new();
        if std::fs::read_to_string(&p).unwrap() != unformatted {
            problems.push("the file was modified".to_string());
        }
        if r.is_ok() {
            problems.push("exit status is success although the file needs formatting".to_string());
        }
        report(&format!("{name}_unformatted"), problems);
        std::fs::write(&p, &formatted).unwrap();
        let r = format_files(p.to_str().unwrap(), check, diff);
        let mut problems = Vec::new();
        if std::fs::read_to_string(&p).unwrap() != formatted {
            problems.push("the formatted file was modified".to_string());
        }
        if r.is_err() {
            problems.push("exit status is failure right after formatting".to_string());
        }
        report(&format!("{name}_formatted"), problems);
    }
    // rewrite mode, two files: only the changed one is rewritten, each with its own text
    let (a, b) = (dir.join("two").join("a.incn"), dir.join("two").join("b.incn"));
    std::fs::create_dir_all(dir.join("two")).unwrap();
    let other = "def g()->None:\n        pass\n";
    std::fs::write(&a, unformatted).unwrap();
    std::fs::write(&b, other).unwrap();
    let r = format_files(dir.join("two").to_str().unwrap(), false, false);
    let mut problems = Vec::new();
    if r.is_err() {
        problems.push("rewrite failed".to_string());
    }
    if std::fs::read_to_string(&a).unwrap() != formatted {
        problems.push("a.incn does not hold its own formatted text".to_string());
    }
    if std::fs::read_to_string(&b).unwrap() != incan::format_source(other).unwrap() {
        problems.push("b.incn does not hold its own formatted text".to_string());
    }
    if format_files(dir.join("two").to_str().unwrap(), true, false).is_err() {
        problems.push("--check fails right after `incan fmt` rewrote the files".to_string());
    }
    report("rewrite_two_files", problems);
    let mut problems = Vec::new();
    if incan::check_formatted(&formatted).ok() != Some(true) {
        problems.push("check_formatted(fmt(x)) is not true".to_string());
    }
    if incan::check_formatted(unformatted).ok() != Some(false) {
        problems.push("check_formatted(unformatted) is not false".to_string());
    }
    if incan::check_formatted("def f(:\n").is_ok() {
        problems.push("check_formatted swallows a syntax error".to_string());
    }
    report("check_formatted", problems);
    let _ = std::fs::remove_dir_all(&dir);
}

/// `cargotoml <scratch-dir>`: generate projects through the public ProjectGenerator API and print the `[dependencies]` lines of
/// the written Cargo.toml per scenario: `DEPS <scenario> <line>|<line>|..` (replay of X-cargo_toml; the caller runs this in
/// several processes and compares).
pub fn cargotoml_main(args: &[String]) {
    use incan::ProjectGenerator;
    let base = std::path::PathBuf::from(args.first().cloned().unwrap_or_else(|| "/verif/work/cargotoml".to_string())).join(format!("run-{}", std::process::id()));
    let _ = std::fs::remove_dir_all(&base);
    let scenarios: Vec<(&str, bool, bool, bool, Vec<&str>)> = vec![
        ("eight_crates", false, false, false, vec!["rand", "regex", "anyhow", "log", "bytes", "futures", "itertools", "uuid"]),
        ("serde_overlap", true, false, false, vec!["serde_json", "serde", "chrono"]),
        ("axum_tokio_overlap", false, false, true, vec!["tokio", "tracing"]),
        ("tokio_only", false, true, false, vec!["reqwest", "regex"]),
        ("web_and_json", true, false, true, vec!["uuid"]),
        ("unknown_crate", false, false, false, vec!["rand", "left_pad"]),
        ("all_known", false, false, false, vec![
            "serde", "serde_json", "tokio", "time", "chrono", "reqwest", "uuid", "rand", "regex", "anyhow", "thiserror", "tracing", "clap", "log",
            "env_logger", "sqlx", "futures", "bytes", "itertools",
        ]),
    ];
    for (name, serde, tokio, axum, crates) in scenarios {
        let dir = base.join(name);
        let mut g = ProjectGenerator::new(&dir, "demo", true);
        g.set_needs_serde(serde);
        g.set_needs_tokio(tokio);
        g.set_needs_axum(axum);
        let mut refused = Vec::new();
        for c in &crates {
            // `()` before the unknown-crate repair, `Result<(), UnknownCrateError>` after it: both are Debug
            let r = g.add_rust_crate(c);
            if format!("{r:?}").starts_with("Err") {
                refused.push(c.to_string());
            }
        }
        if !refused.is_empty() {
            println!("REFUSED {name} {}", refused.join(","));
        }
        if let Err(e) = g.generate("fn main() {}\n") {
            println!("DEPS {name} ERROR {e}");
            continue;
        }
        let text = std::fs::read_to_string(dir.join("Cargo.toml")).unwrap_or_default();
        let mut deps = Vec::new();
        let mut inside = false;
        for line in text.lines() {
            if line.starts_with('[') {
                inside = line.trim() == "[dependencies]";
                continue;
            }
            if inside && !line.trim().is_empty() {
                deps.push(line.trim().to_string());
            }
        }
        println!("DEPS {name} {}", deps.join("|"));
    }
    // rebuilding into the same directory after the dependency set changed (same manifest length): the manifest must follow
    {
        let dir = base.join("rebuild");
        let mut g1 = ProjectGenerator::new(&dir, "demo", true);
        let _ = g1.add_rust_crate("regex");
        let _ = g1.generate("fn main() {}\n");
        let mut g2 = ProjectGenerator::new(&dir, "demo", true);
        let _ = g2.add_rust_crate("bytes");
        let _ = g2.generate("fn main() {}\n");
        let text = std::fs::read_to_string(dir.join("Cargo.toml")).unwrap_or_default();
        if text.contains("bytes = ") && !text.contains("regex = ") {
            println!("REBUILD ok");
        } else {
            println!("REBUILD stale: the manifest of the second build still declares the first build's crates");
        }
        // package / binary naming for a name with a hyphen
        let dirh = base.join("hyphen");
        let gh = ProjectGenerator::new(&dirh, "hello-world", true);
        let _ = gh.generate("fn main() {}\n");
        let t = std::fs::read_to_string(dirh.join("Cargo.toml")).unwrap_or_default();
        let names: Vec<&str> = t.lines().filter(|l| l.starts_with("name = ")).collect();
        println!("NAMES {}", names.join("|"));
    }
    // multi-file project: the `mod` declarations of main.rs
    {
        let dir = base.join("multi");
        let g = ProjectGenerator::new(&dir, "demo", true);
        let mut modules = std::collections::HashMap::new();
        for m in ["zeta", "alpha", "models", "utils", "db", "handlers", "beta", "config"] {
            modules.insert(m.to_string(), format!("pub fn {m}_f() {{}}\n"));
        }
        match g.generate_multi("#![allow(unused)]\nfn main() {}\n", &modules) {
            Ok(()) => {
                let text = std::fs::read_to_string(dir.join("src/main.rs")).unwrap_or_default();
                let mods: Vec<&str> = text.lines().filter(|l| l.trim_start().starts_with("mod ") || l.trim_start().starts_with("pub mod ")).map(|l| l.trim()).collect();
                println!("MODS multi {}", mods.join("|"));
            }
            Err(e) => println!("MODS multi ERROR {e}"),
        }
    }
    let _ = std::fs::remove_dir_all(&base);
}

/// `testrun <scratch-dir>`: the public `incan test` entry point (`run_tests`) on real test files: one file whose only test passes, one
/// whose only test fails an assertion, one whose test panics through a division by zero.  Prints `OK|BROKEN <scenario> ..`.
/// (The runner generates a Cargo project under `target/incan_tests/` relative to the working directory and runs `cargo test` in it.)
pub fn testrun_main(args: &[String]) {
    use incan::cli::test_runner::run_tests;
    let dir = std::path::PathBuf::from(args.first().cloned().unwrap_or_else(|| "/verif/work/testrun".to_string())).join(format!("run-{}", std::process::id()));
    let _ = std::fs::remove_dir_all(&dir);
    std::fs::create_dir_all(&dir).expect("scratch dir");
    std::env::set_current_dir(&dir).expect("cd scratch");
    let cases = [
        ("passing", "from testing import assert_eq\n\ndef test_ok() -> None:\n    assert_eq(1 + 1, 2)\n", true),
        ("failing_assert", "from testing import assert_eq\n\ndef test_bad() -> None:\n    assert_eq(1 + 1, 3)\n", false),
        ("failing_with_result_type", "def test_res() -> Result[None, str]:\n    return Err(\"boom\")\n", false),
        ("failing_zero_division", "from testing import assert_eq\n\ndef test_div() -> None:\n    a = 0\n    b = 1 // a\n    assert_eq(b, 0)\n", false),
    ];
    for (name, src, should_pass) in cases {
        let d = dir.join(name);
        std::fs::create_dir_all(&d).unwrap();
        std::fs::write(d.join(format!("test_{name}.incn")), src).unwrap();
        let r = run_tests(d.to_str().unwrap(), false, false, true, None, false, false);
        let passed = r.is_ok();
        if passed == should_pass {
            println!("OK {name} reported as {}", if passed { "passed" } else { "failed" });
        } else {
            println!("BROKEN {name} the test function {} but `incan test` reports {}", if should_pass { "passes" } else { "fails" }, if passed { "success" } else { "failure" });
        }
    }
    // selection: -k keyword without --slow must leave a matching @slow test out (it would fail); @skip wins over @xfail whatever the order
    {
        let d = dir.join("selection");
        std::fs::create_dir_all(&d).unwrap();
        std::fs::write(
            d.join("test_selection.incn"),
            "from testing import assert_eq\n\ndef test_sync_quick() -> None:\n    assert_eq(1, 1)\n\n@slow\ndef test_sync_full() -> None:\n    assert_eq(1, 2)\n",
        )
        .unwrap();
        let r = run_tests(d.to_str().unwrap(), false, false, false, Some("sync"), false, false);
        if r.is_ok() {
            println!("OK selection_k_without_slow the @slow test was left out");
        } else {
            println!("BROKEN selection_k_without_slow `-k sync` without --slow ran the @slow test (it fails) - exit status failure");
        }
        let d2 = dir.join("markers");
        std::fs::create_dir_all(&d2).unwrap();
        std::fs::write(
            d2.join("test_markers.incn"),
            "from testing import assert_eq\n\n@xfail(\"known\")\n@skip(\"not now\")\ndef test_xfail_above_skip() -> None:\n    assert_eq(1, 1)\n\ndef test_plain() -> None:\n    assert_eq(1, 1)\n",
        )
        .unwrap();
        let r = run_tests(d2.to_str().unwrap(), false, false, true, None, false, false);
        if r.is_ok() {
            println!("OK skip_with_xfail the @skip test was not run");
        } else {
            println!("BROKEN skip_with_xfail a test carrying @skip (below @xfail) was run and its passing counted as a failure");
        }
    }
    let _ = std::env::set_current_dir("/");
    let _ = std::fs::remove_dir_all(&dir);
}

/// `scanflags <file>`: for every case (a whole program) run the public feature scanners of the code generator and print
/// `CASE <id> serde=<bool> tokio=<bool> axum=<bool>` (or `CASE <id> ERR ..` when the program does not parse).
pub fn scanflags_main(args: &[String]) {
    let text = std::fs::read_to_string(&args[0]).expect("readable case file");
    for (id, _kind, src) in split_cases(&text) {
        let r = std::panic::catch_unwind(|| {
            let program = parse_src(&src)?;
            let mut cg = incan::IrCodegen::new();
            cg.scan_for_serde(&program);
            cg.scan_for_async(&program);
            cg.scan_for_web(&program);
            Ok::<_, String>(format!("serde={} tokio={} axum={}", cg.needs_serde(), cg.needs_tokio(), cg.needs_axum()))
        });
        match r {
            Ok(Ok(s)) => println!("CASE {id} {s}"),
            Ok(Err(e)) => println!("CASE {id} ERR {}", e.replace('\n', " ")),
            Err(_) => println!("CASE {id} ERR PANIC"),
        }
    }
}

/// `lexlayout <file>`: cases come in groups `#@@ <group>.<variant> program`; all variants of a group are the same program under a
/// meaning-preserving layout edit (indent width, tabs, CRLF, comments, blank lines, trailing spaces).  Prints `GROUP <g> SAME` or
/// `GROUP <g> DIFF <variant> ..` comparing the parsed programs (span-free) - and the token kinds when parsing fails.
pub fn lexlayout_main(args: &[String]) {
    let text = std::fs::read_to_string(&args[0]).expect("readable case file");
    let mut groups: Vec<(String, Vec<(String, String)>)> = Vec::new();
    for (id, _kind, src) in split_cases(&text) {
        let (g, v) = id.split_once('.').map(|(a, b)| (a.to_string(), b.to_string())).unwrap_or((id.clone(), "base".to_string()));
        // a variant named `*_nonl` is the text without its final line feed(s) (the case-file format always ends a case with one)
        let src = if v.ends_with("_nonl") { src.trim_end_matches(|c| c == '\n' || c == '\r').to_string() } else { src };
        let view = match std::panic::catch_unwind(|| parse_src(&src).map(|p| strip_spans(&format!("{:?}", p.declarations)))) {
            Ok(Ok(s)) => s,
            Ok(Err(e)) => format!("ERR {e}"),
            Err(_) => "PANIC".to_string(),
        };
        match groups.iter_mut().find(|(n, _)| *n == g) {
            Some((_, vs)) => vs.push((v, view)),
            None => groups.push((g, vec![(v, view)])),
        }
    }
    for (g, vs) in groups {
        let base = &vs[0].1;
        let bad: Vec<&str> = vs.iter().filter(|(_, s)| s != base).map(|(v, _)| v.as_str()).collect();
        if base.starts_with("ERR") || base == "PANIC" {
            println!("GROUP {g} BASE-{}", &base[..base.len().min(80)]);
        } else if bad.is_empty() {
            println!("GROUP {g} SAME {}", vs.len());
        } else {
            let d = vs.iter().find(|(_, s)| s != base).map(|(_, s)| s.chars().take(100).collect::<String>()).unwrap_or_default();
            println!("GROUP {g} DIFF {} | {}", bad.join(","), d.replace('\n', " "));
        }
    }
}
