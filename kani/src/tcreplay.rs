//! Native type-check of a source file through the public API (replay of typechecker-slice models).
pub fn main(args: &[String]) {
    let src = std::fs::read_to_string(&args[0]).expect("readable source file");
    let r = std::panic::catch_unwind(|| {
        let tokens = match incan::lexer::lex(&src) {
            Ok(t) => t,
            Err(e) => return format!("LEX-ERROR {}", e.len()),
        };
        let program = match incan::parser::parse(&tokens) {
            Ok(p) => p,
            Err(e) => return format!("PARSE-ERROR {}: {}", e.len(), e.iter().map(|x| x.message.clone()).collect::<Vec<_>>().join(" | ")),
        };
        match incan::typechecker::check(&program) {
            Ok(()) => "ACCEPTED".to_string(),
            Err(e) => format!("REJECTED {}: {}", e.len(), e.iter().map(|x| x.message.clone()).collect::<Vec<_>>().join(" | ")),
        }
    });
    match r {
        Ok(s) => println!("{s}"),
        Err(_) => println!("PANIC"),
    }
}
