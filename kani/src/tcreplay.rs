//! Native type-check of a source file through the public API (replay of typechecker-slice models).
pub fn main(args: &[String]) {
    let src = std::fs::read_to_string(&args[0]).expect("readable source file");
    let r = std::panic::catch_unwind(|| {
        let tokens = match incan::lexer::lex(&src) {
            Ok(t) => t,
            Err(e) => return format!("LEX-ERROR {}", e.len()),
        };
        let program = match incan::parser::parse(&tokens) {
            Ok(p) => p,
            Err(e) => return format!("PARSE-ERROR {}: {}", e.len(), e.iter().map(|x| x.message.clone()).collect::<Vec<_>>().join(" | ")),
        };
        match incan::typechecker::check(&program) {
            Ok(()) => "ACCEPTED".to_string(),
            Err(e) => format!("REJECTED {}: {}", e.len(), e.iter().map(|x| x.message.clone()).collect::<Vec<_>>().join(" | ")),
        }
    });
    match r {
        Ok(s) => println!("{s}"),
        Err(_) => println!("PANIC"),
    }
}

/// Lex, parse, type-check and generate Rust for a source file through the public API; prints the generated Rust.
pub fn emit_main(args: &[String]) {
    let src = std::fs::read_to_string(&args[0]).expect("readable source file");
    let r = std::panic::catch_unwind(|| {
        let tokens = incan::lexer::lex(&src).map_err(|e| format!("LEX-ERROR {}", e.len()))?;
        let program = incan::parser::parse(&tokens).map_err(|e| format!("PARSE-ERROR {}", e.len()))?;
        if let Err(e) = incan::typechecker::check(&program) {
            return Err(format!("REJECTED {}: {}", e.len(), e.iter().map(|x| x.message.clone()).collect::<Vec<_>>().join(" | ")));
        }
        incan::IrCodegen::new().try_generate(&program).map_err(|e| format!("CODEGEN-ERROR {e:?}"))
    });
    match r {
        Ok(Ok(s)) => println!("RUST-BEGIN\n{s}\nRUST-END"),
        Ok(Err(e)) => println!("{e}"),
        Err(_) => println!("PANIC"),
    }
}

fn sx(e: &incan::ast::Expr) -> String {
    use incan::ast::{Expr, Literal, UnaryOp};
    match e {
        Expr::Ident(n) => n.clone(),
        Expr::Literal(Literal::Int(n)) => n.to_string(),
        Expr::Literal(l) => format!("{l:?}"),
        Expr::Binary(l, op, r) => format!("({op:?} {} {})", sx(&l.node), sx(&r.node)),
        Expr::Unary(UnaryOp::Neg, x) => format!("(Neg {})", sx(&x.node)),
        Expr::Unary(UnaryOp::Not, x) => format!("(Not {})", sx(&x.node)),
        Expr::Paren(x) => format!("(Paren {})", sx(&x.node)),
        Expr::Index(o, i) => format!("(Index {} {})", sx(&o.node), sx(&i.node)),
        Expr::Slice(t, s) => {
            let p = |o: &Option<Box<incan::ast::Spanned<Expr>>>| o.as_ref().map(|x| sx(&x.node)).unwrap_or_else(|| "None".to_string());
            format!("(Slice {} {} {} {})", sx(&t.node), p(&s.start), p(&s.end), p(&s.step))
        }
        other => format!("<{}>", format!("{other:?}").split('(').next().unwrap_or("?")),
    }
}

/// `astdump <file>`: parse the file; for every function print `AST <name> <s-expression of its first return / expression statement>`.
pub fn ast_main(args: &[String]) {
    use incan::ast::{Declaration, Statement};
    let src = std::fs::read_to_string(&args[0]).expect("readable source file");
    let r = std::panic::catch_unwind(|| {
        let tokens = incan::lexer::lex(&src).map_err(|e| format!("LEX-ERROR {}", e.len()))?;
        let program = incan::parser::parse(&tokens)
            .map_err(|e| format!("PARSE-ERROR {}: {}", e.len(), e.iter().map(|x| x.message.clone()).collect::<Vec<_>>().join(" | ")))?;
        let mut out = Vec::new();
        for d in &program.declarations {
            if let Declaration::Function(f) = &d.node {
                for st in &f.body {
                    match &st.node {
                        Statement::Return(Some(e)) | Statement::Expr(e) => {
                            out.push(format!("AST {} {}", f.name, sx(&e.node)));
                            break;
                        }
                        _ => {}
                    }
                }
            }
        }
        Ok::<_, String>(out.join("\n"))
    });
    match r {
        Ok(Ok(s)) => println!("{s}"),
        Ok(Err(e)) => println!("{e}"),
        Err(_) => println!("PANIC"),
    }
}
