//! Kani proof harnesses over the real incan crates (path dependencies on /repo), and — compiled
//! natively by /verif/replay — the same bodies driven by a counterexample's bytes.
#![cfg_attr(kani, feature(allocator_api))]
#![allow(dead_code, unused_imports, static_mut_refs, unused_variables, unused_unsafe)]

#[macro_use]
pub mod nd;
pub mod env;

pub mod c05;
pub mod c13;
#[cfg(any(kani, feature = "compiler"))]
pub mod c07;
#[cfg(any(kani, feature = "compiler"))]
pub mod c11;
#[cfg(any(kani, feature = "compiler"))]
pub mod c14;
#[cfg(any(kani, feature = "compiler"))]
pub mod c19;

#[cfg(not(kani))]
pub mod numreplay;
#[cfg(all(not(kani), feature = "compiler"))]
pub mod planreplay;
#[cfg(all(not(kani), feature = "compiler"))]
pub mod tcreplay;

/// All replayable harnesses (native build only).
#[cfg(not(kani))]
pub fn registry() -> Vec<(&'static str, fn(&mut nd::BytesNd), fn(&mut nd::RandNd))> {
    let mut v = Vec::new();
    v.extend(c05::registry());
    v.extend(c13::registry());
    #[cfg(feature = "compiler")]
    {
        v.extend(c07::registry());
        v.extend(c11::registry());
        v.extend(c14::registry());
        v.extend(c19::registry());
    }
    v
}
