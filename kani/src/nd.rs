//! One source of nondeterminism for two worlds.
//!
//! * under `cfg(kani)` every draw is `kani::any()` — the harness is decided by CBMC over all values;
//! * natively (`/verif/replay`) the draws are read back, in order, from the byte vectors of a Kani
//!   counterexample (`--concrete-playback=print`), so *the same harness body* re-runs against the real,
//!   un-stubbed build before anything is reported.
//!
//! Only primitive draws are offered so that the order/size of draws is identical in both worlds.

pub trait Nd {
    fn u8(&mut self) -> u8;
    fn u32(&mut self) -> u32;
    fn i64(&mut self) -> i64;
    fn usize(&mut self) -> usize;
    fn bool(&mut self) -> bool;
    fn assume(&mut self, c: bool);

    fn opt_i64(&mut self) -> Option<i64> {
        if self.bool() { Some(self.i64()) } else { None }
    }
}

#[cfg(kani)]
pub struct KaniNd;

#[cfg(kani)]
impl Nd for KaniNd {
    fn u8(&mut self) -> u8 {
        kani::any()
    }
    fn u32(&mut self) -> u32 {
        kani::any()
    }
    fn i64(&mut self) -> i64 {
        kani::any()
    }
    fn usize(&mut self) -> usize {
        kani::any()
    }
    fn bool(&mut self) -> bool {
        kani::any()
    }
    fn assume(&mut self, c: bool) {
        kani::assume(c)
    }
}

/// Native replay source: the `Vec<Vec<u8>>` printed by Kani's concrete playback.
#[cfg(not(kani))]
pub struct BytesNd {
    pub vals: Vec<Vec<u8>>,
    pub pos: usize,
    pub assumption_violated: bool,
    pub exhausted: bool,
}

#[cfg(not(kani))]
impl BytesNd {
    pub fn new(vals: Vec<Vec<u8>>) -> Self {
        BytesNd { vals, pos: 0, assumption_violated: false, exhausted: false }
    }
    fn take(&mut self, n: usize) -> [u8; 8] {
        let mut out = [0u8; 8];
        if self.pos < self.vals.len() {
            let v = &self.vals[self.pos];
            for (i, b) in v.iter().take(n.min(8)).enumerate() {
                out[i] = *b;
            }
        } else {
            // A draw the solver did not constrain (not on the counterexample trace): any value is as
            // good as another; use zero, and remember that we ran out.
            self.exhausted = true;
        }
        self.pos += 1;
        out
    }
}

#[cfg(not(kani))]
pub struct AssumptionViolated;

#[cfg(not(kani))]
impl Nd for BytesNd {
    fn u8(&mut self) -> u8 {
        self.take(1)[0]
    }
    fn u32(&mut self) -> u32 {
        let b = self.take(4);
        u32::from_le_bytes([b[0], b[1], b[2], b[3]])
    }
    fn i64(&mut self) -> i64 {
        i64::from_le_bytes(self.take(8))
    }
    fn usize(&mut self) -> usize {
        u64::from_le_bytes(self.take(8)) as usize
    }
    fn bool(&mut self) -> bool {
        self.take(1)[0] != 0
    }
    fn assume(&mut self, c: bool) {
        if !c {
            self.assumption_violated = true;
            std::panic::panic_any(AssumptionViolated);
        }
    }
}

/// `vcover!(cond, "name")`: a reachability witness (vacuity guard) under Kani; nothing natively.
#[cfg(kani)]
#[macro_export]
macro_rules! vcover {
    ($c:expr, $m:literal) => {
        kani::cover!($c, $m)
    };
}
#[cfg(not(kani))]
#[macro_export]
macro_rules! vcover {
    ($c:expr, $m:literal) => {
        let _ = &$c;
    };
}

/// Declare harnesses once; get `#[kani::proof]` functions under Kani and a replay registry natively.
#[macro_export]
macro_rules! harnesses {
    ($( $(#[$m:meta])* fn $name:ident ($nd:ident) $body:block )*) => {
        $(
            #[cfg(kani)]
            #[kani::proof]
            $(#[$m])*
            fn $name() {
                let mut __k = $crate::nd::KaniNd;
                let $nd = &mut __k;
                $body
            }
        )*
        $(
            #[cfg(not(kani))]
            pub fn $name($nd: &mut $crate::nd::BytesNd) $body
        )*
        #[cfg(not(kani))]
        pub fn registry() -> Vec<(&'static str, fn(&mut $crate::nd::BytesNd))> {
            vec![ $( (stringify!($name), $name as fn(&mut $crate::nd::BytesNd)) ),* ]
        }
    };
}
