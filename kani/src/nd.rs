//! One source of nondeterminism for two worlds.
//!
//! * under `cfg(kani)` every draw is `kani::any()` — the harness is decided by CBMC over all values;
//! * natively (`/verif/replay`) the draws are read back, in order, from the byte vectors of a Kani
//!   counterexample (`--concrete-playback=print`), so *the same harness body* re-runs against the real,
//!   un-stubbed build before anything is reported.
//!
//! Only primitive draws are offered so that the order/size of draws is identical in both worlds.

pub trait Nd {
    fn u8(&mut self) -> u8;
    fn u32(&mut self) -> u32;
    fn i64(&mut self) -> i64;
    fn usize(&mut self) -> usize;
    fn bool(&mut self) -> bool;
    fn assume(&mut self, c: bool);

    fn opt_i64(&mut self) -> Option<i64> {
        if self.bool() { Some(self.i64()) } else { None }
    }
}

#[cfg(kani)]
pub struct KaniNd;

#[cfg(kani)]
impl Nd for KaniNd {
    fn u8(&mut self) -> u8 {
        kani::any()
    }
    fn u32(&mut self) -> u32 {
        kani::any()
    }
    fn i64(&mut self) -> i64 {
        kani::any()
    }
    fn usize(&mut self) -> usize {
        kani::any()
    }
    fn bool(&mut self) -> bool {
        kani::any()
    }
    fn assume(&mut self, c: bool) {
        kani::assume(c)
    }
}

/// Native replay source: the `Vec<Vec<u8>>` printed by Kani's concrete playback.
#[cfg(not(kani))]
pub struct BytesNd {
    pub vals: Vec<Vec<u8>>,
    pub pos: usize,
    pub assumption_violated: bool,
    pub exhausted: bool,
}

#[cfg(not(kani))]
impl BytesNd {
    pub fn new(vals: Vec<Vec<u8>>) -> Self {
        BytesNd { vals, pos: 0, assumption_violated: false, exhausted: false }
    }
    fn take(&mut self, n: usize) -> [u8; 8] {
        let mut out = [0u8; 8];
        if self.pos < self.vals.len() {
            let v = &self.vals[self.pos];
            for (i, b) in v.iter().take(n.min(8)).enumerate() {
                out[i] = *b;
            }
        } else {
            // A draw the solver did not constrain (not on the counterexample trace): any value is as
            // good as another; use zero, and remember that we ran out.
            self.exhausted = true;
        }
        self.pos += 1;
        out
    }
}

#[cfg(not(kani))]
pub struct AssumptionViolated;

#[cfg(not(kani))]
impl Nd for BytesNd {
    fn u8(&mut self) -> u8 {
        self.take(1)[0]
    }
    fn u32(&mut self) -> u32 {
        let b = self.take(4);
        u32::from_le_bytes([b[0], b[1], b[2], b[3]])
    }
    fn i64(&mut self) -> i64 {
        i64::from_le_bytes(self.take(8))
    }
    fn usize(&mut self) -> usize {
        u64::from_le_bytes(self.take(8)) as usize
    }
    fn bool(&mut self) -> bool {
        self.take(1)[0] != 0
    }
    fn assume(&mut self, c: bool) {
        if !c {
            self.assumption_violated = true;
            std::panic::panic_any(AssumptionViolated);
        }
    }
}

/// Native witness search: biased random draws, recorded so that a reproducing vector can be replayed. Only used to
/// concretise a failure that the solver has already established but for which Kani printed no concrete values.
#[cfg(not(kani))]
pub struct RandNd {
    pub state: u64,
    pub drawn: Vec<Vec<u8>>,
}

#[cfg(not(kani))]
impl RandNd {
    pub fn new(seed: u64) -> Self {
        RandNd { state: seed.wrapping_mul(0x9E3779B97F4A7C15) | 1, drawn: Vec::new() }
    }
    fn next(&mut self) -> u64 {
        let mut x = self.state;
        x ^= x << 13;
        x ^= x >> 7;
        x ^= x << 17;
        self.state = x;
        x
    }
    fn int(&mut self) -> i64 {
        let r = self.next();
        match r % 10 {
            0..=5 => ((self.next() % 17) as i64) - 8,
            6 => [i64::MIN, i64::MAX, i64::MIN + 1, i64::MAX - 1, 0][(self.next() % 5) as usize],
            7 => ((self.next() % 300) as i64) - 20,
            _ => self.next() as i64,
        }
    }
}

#[cfg(not(kani))]
impl Nd for RandNd {
    fn u8(&mut self) -> u8 {
        const INTERESTING: [u8; 24] = [
            0, 1, b'\n', b'\r', b'\t', b' ', b'a', b'z', b'0', b'_', b'(', b'"', 0x7f, 0x80, 0xbf, 0xc3, 0xa9, 0xe2, 0x82, 0xac, 0xf0, 0x9f,
            0x98, 0xff,
        ];
        let r = self.next();
        let v = match r % 6 {
            0 => (self.next() & 0xff) as u8,
            1 | 2 => (self.next() % 9) as u8,
            _ => INTERESTING[(self.next() % 24) as usize],
        };
        self.drawn.push(vec![v]);
        v
    }
    fn u32(&mut self) -> u32 {
        let v = if self.next() % 8 == 0 { self.next() as u32 } else { (self.next() % 9) as u32 };
        self.drawn.push(v.to_le_bytes().to_vec());
        v
    }
    fn i64(&mut self) -> i64 {
        let v = self.int();
        self.drawn.push(v.to_le_bytes().to_vec());
        v
    }
    fn usize(&mut self) -> usize {
        let v = if self.next() % 10 == 0 { self.next() as usize } else { (self.next() % 10) as usize };
        self.drawn.push((v as u64).to_le_bytes().to_vec());
        v
    }
    fn bool(&mut self) -> bool {
        let v = self.next() % 2 == 0;
        self.drawn.push(vec![v as u8]);
        v
    }
    fn assume(&mut self, c: bool) {
        if !c {
            std::panic::panic_any(AssumptionViolated);
        }
    }
}

/// `vcover!(cond, "name")`: a reachability witness (vacuity guard) under Kani; nothing natively.
#[cfg(kani)]
#[macro_export]
macro_rules! vcover {
    ($c:expr, $m:literal) => {
        kani::cover!($c, $m)
    };
}
#[cfg(not(kani))]
#[macro_export]
macro_rules! vcover {
    ($c:expr, $m:literal) => {
        let _ = &$c;
    };
}

/// Declare harnesses once; get `#[kani::proof]` functions under Kani and a replay registry natively.
#[macro_export]
macro_rules! harnesses {
    ($( $(#[$m:meta])* fn $name:ident ($nd:ident) $body:block )*) => {
        $(
            #[cfg(kani)]
            #[kani::proof]
            $(#[$m])*
            fn $name() {
                let mut __k = $crate::nd::KaniNd;
                let $nd = &mut __k;
                $body
            }
        )*
        $(
            #[cfg(not(kani))]
            pub fn $name<__N: $crate::nd::Nd>($nd: &mut __N) $body
        )*
        #[cfg(not(kani))]
        pub fn registry() -> Vec<(&'static str, fn(&mut $crate::nd::BytesNd), fn(&mut $crate::nd::RandNd))> {
            vec![ $( (stringify!($name), $name::<$crate::nd::BytesNd> as fn(&mut $crate::nd::BytesNd),
                      $name::<$crate::nd::RandNd> as fn(&mut $crate::nd::RandNd)) ),* ]
        }
    };
}
