//! `replay synparse <file>`: each line of the file is a Rust token sequence; print, per line, either
//! `OK <operator skeleton>` (fully parenthesised, casts/groups/derefs/references transparent) or `ERR <message>`
//! as decided by `syn`, the parser the compiler itself uses on its output.
use syn::{BinOp, Expr, UnOp};

fn binop(op: &BinOp) -> &'static str {
    match op {
        BinOp::Add(_) => "+", BinOp::Sub(_) => "-", BinOp::Mul(_) => "*", BinOp::Div(_) => "/", BinOp::Rem(_) => "%",
        BinOp::And(_) => "&&", BinOp::Or(_) => "||", BinOp::BitXor(_) => "^", BinOp::BitAnd(_) => "&", BinOp::BitOr(_) => "|",
        BinOp::Shl(_) => "<<", BinOp::Shr(_) => ">>", BinOp::Eq(_) => "==", BinOp::Lt(_) => "<", BinOp::Le(_) => "<=",
        BinOp::Ne(_) => "!=", BinOp::Ge(_) => ">=", BinOp::Gt(_) => ">",
        _ => "?=",
    }
}

fn skel(e: &Expr) -> String {
    match e {
        Expr::Binary(b) => format!("(bin{} {} {})", binop(&b.op), skel(&b.left), skel(&b.right)),
        Expr::Unary(u) => match u.op {
            UnOp::Deref(_) => skel(&u.expr),
            UnOp::Not(_) => format!("(un! {})", skel(&u.expr)),
            UnOp::Neg(_) => format!("(un- {})", skel(&u.expr)),
            _ => format!("(un? {})", skel(&u.expr)),
        },
        Expr::Paren(p) => skel(&p.expr),
        Expr::Group(g) => skel(&g.expr),
        Expr::Cast(c) => skel(&c.expr),
        Expr::Reference(r) => skel(&r.expr),
        Expr::MethodCall(m) => {
            let mut s = format!("(method:{} {}", m.method, skel(&m.receiver));
            for a in m.args.iter() {
                s.push(' ');
                s.push_str(&skel(a));
            }
            s.push(')');
            s
        }
        Expr::Call(c) => {
            let f = quote::ToTokens::to_token_stream(&c.func).to_string().replace(' ', "");
            let mut s = format!("(call:{f}");
            for a in c.args.iter() {
                s.push(' ');
                s.push_str(&skel(a));
            }
            s.push(')');
            s
        }
        Expr::Path(p) => quote::ToTokens::to_token_stream(p).to_string().replace(' ', ""),
        Expr::Lit(l) => quote::ToTokens::to_token_stream(l).to_string(),
        other => format!("<{}>", quote::ToTokens::to_token_stream(other)),
    }
}

pub fn main(args: &[String]) {
    let text = std::fs::read_to_string(&args[0]).expect("readable file");
    for line in text.lines() {
        match syn::parse_str::<Expr>(line) {
            Ok(e) => println!("OK {}", skel(&e)),
            Err(e) => println!("ERR {e}"),
        }
    }
}
