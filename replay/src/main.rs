//! Native replay runner.
//!
//!   replay kani <harness> <hex,hex,...>      re-run a harness body on a Kani counterexample's draws
//!   replay num <fn> <args...>                call a numeric kernel on concrete operands (E2 models)
//!   replay list                              list replayable harnesses
//!
//! Exit status: 0 = the property held on this input, 1 = violated (REPRODUCED line), 3 = the draws
//! violate an assumption of the harness (not a valid counterexample), 2 = usage error.
mod synparse;
use incan_verif_kani::nd::{AssumptionViolated, BytesNd};
use std::panic;

fn parse_vals(s: &str) -> Vec<Vec<u8>> {
    if s.is_empty() || s == "-" {
        return Vec::new();
    }
    s.split(',')
        .map(|h| (0..h.len() / 2).map(|i| u8::from_str_radix(&h[2 * i..2 * i + 2], 16).unwrap()).collect())
        .collect()
}

fn payload_msg(p: &Box<dyn std::any::Any + Send>) -> String {
    if let Some(s) = p.downcast_ref::<String>() {
        s.clone()
    } else if let Some(s) = p.downcast_ref::<&str>() {
        s.to_string()
    } else {
        "<non-string panic>".into()
    }
}

fn main() {
    let args: Vec<String> = std::env::args().collect();
    if args.len() < 2 {
        eprintln!("usage: replay kani|num|list ...");
        std::process::exit(2);
    }
    // Keep panics quiet; we report them ourselves.
    panic::set_hook(Box::new(|_| {}));
    match args[1].as_str() {
        "list" => {
            for (n, _, _) in incan_verif_kani::registry() {
                println!("{n}");
            }
        }
        "kani" => {
            let name = &args[2];
            let vals = parse_vals(args.get(3).map(|s| s.as_str()).unwrap_or(""));
            let reg = incan_verif_kani::registry();
            let Some((_, f, _)) = reg.iter().find(|(n, _, _)| n == name) else {
                eprintln!("unknown harness {name}");
                std::process::exit(2);
            };
            let mut nd = BytesNd::new(vals);
            let r = panic::catch_unwind(panic::AssertUnwindSafe(|| f(&mut nd)));
            match r {
                Ok(()) => {
                    println!("HELD harness={name} draws_used={} exhausted={}", nd.pos, nd.exhausted);
                    std::process::exit(0);
                }
                Err(p) => {
                    if p.downcast_ref::<AssumptionViolated>().is_some() {
                        println!("ASSUMPTION-VIOLATED harness={name}");
                        std::process::exit(3);
                    }
                    println!("REPRODUCED harness={name} failure={:?}", payload_msg(&p));
                    std::process::exit(1);
                }
            }
        }
        "search" => {
            // replay search <harness> <seed> <iterations>: look for a reproducing input of a failure the solver established
            let name = &args[2];
            let seed: u64 = args.get(3).and_then(|s| s.parse().ok()).unwrap_or(1);
            let iters: u64 = args.get(4).and_then(|s| s.parse().ok()).unwrap_or(1_000_000);
            let reg = incan_verif_kani::registry();
            let Some((_, _, f)) = reg.iter().find(|(n, _, _)| n == name) else {
                eprintln!("unknown harness {name}");
                std::process::exit(2);
            };
            let mut valid = 0u64;
            for i in 0..iters {
                let mut nd = incan_verif_kani::nd::RandNd::new(seed.wrapping_add(i));
                let r = panic::catch_unwind(panic::AssertUnwindSafe(|| f(&mut nd)));
                match r {
                    Ok(()) => valid += 1,
                    Err(p) => {
                        if p.downcast_ref::<AssumptionViolated>().is_some() {
                            continue;
                        }
                        let hex: Vec<String> = nd.drawn.iter().map(|v| v.iter().map(|b| format!("{b:02x}")).collect()).collect();
                        println!("FOUND harness={name} after={} valid={} draws={} failure={:?}", i + 1, valid, hex.join(","), payload_msg(&p));
                        std::process::exit(1);
                    }
                }
            }
            println!("NOTFOUND harness={name} tried={iters} valid={valid}");
            std::process::exit(0);
        }
        "synparse" => synparse::main(&args[2..]),
        "num" => incan_verif_kani::numreplay::main(&args[2..]),
        #[cfg(feature = "compiler")]
        "astdump" => incan_verif_kani::tcreplay::ast_main(&args[2..]),
        #[cfg(feature = "compiler")]
        "astdbg" => incan_verif_kani::tcreplay::astdbg_main(&args[2..]),
        #[cfg(feature = "compiler")]
        "cargotoml" => incan_verif_kani::tcreplay::cargotoml_main(&args[2..]),
        #[cfg(feature = "compiler")]
        "testrun" => incan_verif_kani::tcreplay::testrun_main(&args[2..]),
        #[cfg(feature = "compiler")]
        "scanflags" => incan_verif_kani::tcreplay::scanflags_main(&args[2..]),
        #[cfg(feature = "compiler")]
        "lexlayout" => incan_verif_kani::tcreplay::lexlayout_main(&args[2..]),
        #[cfg(feature = "compiler")]
        "fmtcli" => incan_verif_kani::tcreplay::fmtcli_main(&args[2..]),
        #[cfg(feature = "compiler")]
        "fmtrt" => incan_verif_kani::tcreplay::fmtrt_main(&args[2..]),
        #[cfg(feature = "compiler")]
        "emitrust" => incan_verif_kani::tcreplay::emit_main(&args[2..]),
        #[cfg(feature = "compiler")]
        "typecheck" => incan_verif_kani::tcreplay::main(&args[2..]),
        #[cfg(feature = "compiler")]
        "visibility" => incan_verif_kani::tcreplay::visibility_main(&args[2..]),
        #[cfg(feature = "compiler")]
        "constval" => incan_verif_kani::tcreplay::const_main(&args[2..]),
        #[cfg(feature = "compiler")]
        "plan" => incan_verif_kani::planreplay::main(&args[2..]),
        _ => {
            eprintln!("unknown mode");
            std::process::exit(2);
        }
    }
}
