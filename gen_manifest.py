#!/usr/bin/env python3
"""Regenerate MANIFEST.json from the tables below (kept in one place so it stays valid)."""
import json

CLAIMED = {
 "C01": dict(
   cat="model_checking", tech="enum-level symbolic execution of rustc MIR + SMT (z3/cvc5) over the parser's operator levels, the lowering of expressions and statements and the token-exact emission of operators, statements, literals and call arguments; composed with the C04 (MIR->SMT) and C05 (Kani/CBMC) helper-kernel obligations",
   text="Solver-based, bounded, KERNEL of the property: (a) the emitter's operator-expression paths (emit_binop_expr, the unary arm of emit_expr, determine_binop_plan) "
        "are symbolically executed from the whole-crate MIR with every operator/operand-type tag symbolic; each feasible path yields the exact Rust tokens it emits, "
        "which are parsed with Rust's precedence table and compared with the IR tree (operand order, conversions, documented operator form, grouping at nesting depth 2); "
        "(b) the run-time helpers the emitted code calls for / // % (all C04 obligations) and for indexing, slicing and range (all C05 harnesses) are decided as under C04/C05; "
        "(c) the front half of the same chain: the operator levels of the parser (token -> AST operator, associativity, precedence ladder) and the binary / unary / "
        "index / slice arms of AstLowering::lower_expr (same operator, operands in order) are executed as slices with sub-parsers / recursive lowering summarised by arbitrary results; "
        "(d) statements and control flow: lowering of if/elif/else ladders (source order, own scopes), of `name = value` (binding vs mutation over the whole scope chain), of field/index "
        "assignment, return, while, for, break, continue; emission of if/else, while/loop, blocks; emission of list/tuple/set/dict literals, if/block expressions; and the slot each "
        "argument of a keyword call is emitted in (parameter order by name); lowering and emission of `match` (arms in source order; each arm's own pattern, guard, body); the call-site rewrite of "
        "validated-newtype constructions - statement lists, elif lists, scope chains, match arms, argument and parameter lists as symbolic sequences of 0..=3 (thorough 0..=5/4); "
        "(e) traversal (X-lower_visits_all): in every arm of lower_expr / lower_statement, on every successful path, every sub-expression and statement of the node is handed to a "
        "lowering function (children computed from the type definitions) - nothing written in the source is dropped from the generated program.",
   note="Kernel-only: the patterns themselves (lower_pattern / emit_pattern are atoms), comprehensions, closures, f-strings, method calls, struct-literal emission, declarations (functions, models, classes, enums, traits), "
        "per-argument conversions/borrows and every other lowering/emission path are NOT covered; sub-expressions and sub-statements are atoms in each obligation (nesting is "
        "covered by composition of the per-node obligations, not executed). One known finding: nested operator expressions lose their parentheses "
        "(`(a + b) * c` -> `a + b * c`), recorded in known_findings.json; any other mis-grouping or operand/operator mix-up is still reported.",
   ref="DESIGN.md section 0.5, C01"),
 "C02": dict(
   cat="model_checking", tech="enum-level symbolic execution of rustc MIR + SMT (z3/cvc5): the checker's and the lowering pass's rule bodies against one documented rule, totality of statement lowering, numeric typing slices; bounded model checking (Kani/CBMC) of the Rust-keyword table; accepted programs generated natively",
   text="Solver-based, the FIRST HALF of the property - code generation does not refuse what the checker accepted - for four mechanisms (the assignment rule; totality of statement lowering; numeric result types of the checker; the keyword table behind name escaping): TypeChecker::check_assignment and the Assignment arm "
        "of AstLowering are executed symbolically (scope chains of 0..=2 scopes, every binding kind, symbol-table lookups as arbitrary answers) and each is decided against the "
        "one documented rule (search the whole scope chain; immutable -> error; mutable -> re-assignment; unbound -> new binding). If both follow it, every assignment the checker "
        "accepts is one lowering accepts; where one deviates, the programs of the deviating class are type-checked and generated through the public API - accepted by `incan "
        "--check` but refused by code generation is the violation. X-lower_total: every variant of ast::Statement has a lowering path that returns Ok when the lowering of its "
        "parts succeeds (each arm of the statement lowering executed with sub-lowerings and lookups as arbitrary answers) - a kind refused on every path is replayed as an accepted "
        "program that code generation cannot build. X-check_binary / X-compound_assign (shared with C07): the static type the checker gives arithmetic and compound assignment is "
        "the documented one, i.e. the type the emitted Rust expression has - an accepted `n /= 2` on an int would be a rustc type error in the generated project. c13_keyword_table_len2..8 (Kani, shared with C13): every Rust keyword that can be "
        "raw is recognised by the table the emitter escapes names with - a missed one makes the generator's own syn re-parse fail on an accepted program.",
   note="Kernel-only: rustc compiling the generated project (the larger half of the property), every other construct, and multi-file programs are NOT covered - the oracle for "
        "those is rustc itself, which neither engine encodes. Two known findings (known_findings.json): tuple assignment to non-name targets is accepted and cannot be lowered at all; re-assigning an immutable binding of an enclosing scope from a nested "
        "block is accepted by the checker and fails in code generation; it shares its root cause with the C03 finding and cannot be repaired without editing a pinned snapshot.",
   ref="DESIGN.md section 0.7, C02"),
 "C03": dict(
   cat="model_checking", tech="enum-level symbolic execution of rustc MIR + SMT (z3): rule bodies of the type checker with the symbol table's queries as uninterpreted calls and names as symbolic strings",
   text="Solver-based, NINE rule bodies / mechanisms of the property: (e) names and returns (check_ident, check_return): a name found by no scope is reported once as unknown and typed Unknown, a found "
        "variable gets its declared type; a returned value (Unit for a bare return) incompatible with the declared return type is reported once; (a) `name = value` (check_assignment): which scopes are searched for an existing binding, immutable existing variable -> mutation "
        "error, mutable -> none, otherwise exactly one new symbol; (b) `expr?` (check_try): non-Result operand reported and typed Unknown, incompatible error types reported, compatible "
        "ones not; (c) match exhaustiveness over enums (check_match_exhaustiveness): an error iff no wildcard / binding arm and some variant is named by no constructor pattern, for 0..=3 "
        "(thorough 4) variants x arms with symbolic names; (d) model / class construction (check_model_or_class_constructor_call): exactly one error per duplicate, unknown, "
        "missing-required and ill-typed field, for 0..=2 (thorough 3) arguments x declared fields with symbolic names. Every answer of lookup / lookup_local / get / types_compatible is arbitrary. "
        "(f) if / elif / else (check_if_stmt, check_if_expr): every condition is checked and must be bool and every statement of every body is checked in its own scope, elif lists and "
        "bodies of 0..=2 (thorough 3); (g) generic user types are nominal in their base name (types_compatible on Generic x Generic: accepted only if the names are equal); (h) the "
        "declared error type `?` is checked against is written only at function / method entry and exit (frame condition over the MIR of every TypeChecker method) and cleared on every path of check_function; "
        "(i) traversal (X-check_visits_all): in every arm of check_statement / check_expr that the model executes (34 of 41), on every path that reports no error, every sub-expression and "
        "statement of the node is handed to check_expr / check_statement (children computed from the type definitions) - so no part of a construct escapes the rules.",
   note="Kernel-only: unknown names, call / return / argument type rules, trait adoption (`@requires`, required methods), the symbol table's own scope walking, and the LOCATION of the "
        "diagnostics are NOT covered; constructor patterns written with a `::` path and Result / Option subjects are outside (c). One known finding: the assignment rule searches the "
        "current scope only (known_findings.json) - re-assigning an immutable outer binding from a nested block passes `incan --check`; any other deviation is still reported.",
   ref="DESIGN.md section 0.5, C03"),
 "C06": dict(
   cat="model_checking", tech="MIR->SMT parity obligations (cvc5/z3) + Kani/CBMC harnesses on the core string kernels and their run-time wrappers",
   text="Solver-based, bounded, KERNEL of the property: the functions the compile-time evaluator calls (incan_core numeric kernels, incan_core::strings::"
        "str_char_at / str_slice) and the functions a function body executes at run time (incan_stdlib kernels and wrappers str_index / str_slice) are "
        "decided to give the same value and the same error for every argument: numeric parity over all i64 pairs / all floats (quick: f32), string "
        "index/slice against the same CPython oracle for every i64 / Option<i64> argument on strings mixing 1-4-byte scalars; and the const evaluator's own "
        "binary arm (X-const_binary, E2-X slice of TypeChecker::eval_const_expr): the type it assigns follows the documented numeric table for all operand "
        "types / operators / exponent shapes, and what it folds - and/or of known bools, `in` / `not in` / `+` on known strings - is the logical operation "
        "resp. the shared core kernel applied to the operands in source order (folded values replayed through the public TypeCheckInfo::const_value); "
        "the Index and Slice arms (X-const_index, X-const_slice): the shared kernels str_char_at / str_slice are called on exactly the compile-time values, every written slice bound "
        "passed as Some(value) and nothing folded when a written bound's value is unknown, the kernel's out-of-range / zero-step errors becoming compile errors; and one step of the "
        "cycle-detection state machine (X-const_cycle): a const re-entered while in progress is always reported, a not-started const is marked in-progress before its initializer is evaluated.",
   note="Kernel-only: the rest of the const evaluator (literals, unary, tuples and frozen collections, the const/frozen kind) and const emission / static string folding "
        "(emit/consts.rs) are "
        "NOT covered; numeric const expressions are not folded by the evaluator at all (value None: the initializer is emitted as Rust), so their run-time "
        "agreement rests on the emission obligations of C01/C07.",
   ref="DESIGN.md section 0.5, C06"),
 "C08": dict(
   cat="model_checking", tech="enum-level symbolic execution of rustc MIR + SMT (z3): every arm of the formatter's printers on a symbolic AST node with the real FormatWriter code; the printed text of each path class re-parsed by the real lexer + parser",
   text="Solver-based, bounded, PER-NODE round trip: Formatter::{format_expr, format_literal, format_pattern, format_type, format_statement, format_param, format_field, "
        "format_decorator, format_method, format_declaration} are executed symbolically from the whole-crate MIR on a symbolic AST node of each variant (optional parts, "
        "operators, flags and list lengths 0..=2, thorough 3, all symbolic; child nodes are atoms written through the real FormatWriter::{write, writeln, newline, indent, dedent, "
        "write_indent} code on a concrete writer state). Every feasible path (feasibility = the solver's verdict) yields the exact text printed for that class of nodes; the text is "
        "parsed by the real lexer + parser and must give back the class's own AST (span-free Debug equality against a value generated from the type definitions and the path facts); "
        "a field the printer never examines is a deviation by itself. Classes no source text parses to are excluded by stated grammar preconditions (AST variants the parser never "
        "constructs, minimum list lengths, the fixed shape of closure parameters ...). Deviations are believed only after the documented example sentences of the arm fail the real "
        "text -> parse -> format -> parse round trip in dev and release.",
   note="Per-node only: children are atoms, so the claim for nested programs is the composition of the per-node obligations (the AST keeps explicit Paren nodes, the printer adds none); "
        "names are plain identifiers; NOT covered at solver level: bytes literals, imports (format_import_path loops over a symbolic count), docstrings, string escaping "
        "(escape_string - exercised by the example sentences only), comments (the AST has none: they are dropped, which the property's list does not mention), line-length "
        "dependent layout (the formatter has none). Thirteen genuine defects found by this check were repaired in /repo (known_findings.json, fixed:).",
   ref="DESIGN.md section 0.7, C08"),
 "C09": dict(
   cat="model_checking", tech="enum-level symbolic execution of rustc MIR + SMT (z3): the printers' path classes (round trip + position independence), FormatWriter as one inductive step, check_formatted and format_files with the file system / formatter as uninterpreted calls",
   text="Solver-based, bounded, KERNEL of the property: (a) idempotence per node: for every path class of the printers (as under C08: expressions, patterns, types, statements, "
        "methods, declarations; lists 0..=2, thorough 3) the printed text parses back to the class's own AST AND no path reads a source position, so formatting the re-parsed "
        "output prints the same text: fmt(fmt(x)) = fmt(x) node by node; (b) FormatWriter, one step from an arbitrary state (level, width, line-start flag symbolic): the "
        "indentation written is exactly level * width columns, iff at the start of a line; (c) check_formatted(src) = Ok(src == format_source(src)) on every path, errors passed on; "
        "(d) format_files: with --check and/or --diff (flags symbolic) NO path performs a write; the exit is a failure exactly when a file would change or cannot be read / "
        "formatted; without the flags exactly the changed files are overwritten, once, each with its own formatted text (0..=2 files, thorough 3; read / write / format / compare "
        "are uninterpreted calls with arbitrary results). Deviations replay through the real pipeline (`replay fmtrt`: fmt twice + check_formatted on 35 example programs) and "
        "through the real command function on files (`replay fmtcli`).",
   note="Kernel-only: idempotence is derived per node (children are atoms) - whole-file effects that are not local to a node (blank lines between declarations, the final "
        "newline, docstring trimming, imports) are exercised by the example programs only, not decided symbolically; the CLI's argument parsing and exit-code mapping above "
        "format_files, and `--diff` output text, are not covered.",
   ref="DESIGN.md section 0.7, C09"),
 "C10": dict(
   cat="model_checking", tech="enum-level symbolic execution of rustc MIR + SMT (z3): Lexer::handle_indentation from symbolic source characters, a symbolic column and a symbolic stack of open levels, against the documented decision and a reference in SMT",
   text="Solver-based, bounded, ONE mechanism of the property (the first the anchors name: indent stack and pending dedents): the part of Lexer::handle_indentation that decides, from "
        "the column of a logical line's first character and the stack of open indentation levels, which INDENT / DEDENT tokens, pending dedents and errors are produced is executed from "
        "the MIR of incan_syntax with the column and the levels (0 < a < b) symbolic. z3 decides per path (L2) that the decision is the documented one - INDENT iff the column is right of "
        "the innermost level, one DEDENT per open level right of the column, the inconsistent-indentation error iff the column is no remaining level - and for every pair of paths with "
        "different outcomes (L1) that no two order-isomorphic states (column, levels) take them: block structure depends on relative indentation only, so a consistent re-indentation "
        "(2 / 4 spaces, tabs as 4 columns) takes the same decision on every line. A deviation is confirmed natively before it is reported: one program in 11 layouts (2 / 3 / 8 spaces, "
        "tabs, CRLF, trailing spaces, blank lines, comments, line breaks in brackets) must parse to the same span-free AST and an ill-indented program must be refused (`replay lexlayout`, dev and release). "
        "X-indent_count: the WHOLE of handle_indentation on the next N = 3 (thorough 7) symbolic characters of the source (any scalar value; Lexer::peek / advance / is_at_end replaced by a "
        "character-stream stand-in) and stacks [0, a], [0, a, b]: z3 decides for every path that its outcome is that of a reference written as nested ite terms - space = 1 column, tab = 4, "
        "CR = 0; a line starting (after white space) with `#` or a line feed is invisible (no token, no level change, still at line start, consumed through its line feed); nothing at end of "
        "input; otherwise the documented decision for the counted column, the line's first character left unconsumed. X-scan_layout: one call of scan_token from an arbitrary layout state "
        "(pending_dedents, at_line_start, bracket_depth symbolic) on N = 2 (thorough 5) symbolic characters, against a reference in SMT: a pending dedent is emitted alone; at line start only "
        "handle_indentation runs; after spaces / tabs a line feed emits one NEWLINE and sets at_line_start iff bracket_depth = 0 and does nothing inside brackets; CR does nothing; a comment "
        "emits nothing and stops before its line feed; brackets move the depth by one. X-eof_dedents: the part of tokenize after the scanning loop, for 1..=4 (thorough 8) open levels: "
        "levels - 1 DEDENTs, then one EOF, Ok iff no error was recorded. X-layout_frame (frame condition read from the MIR text, no solver query): the four layout fields are written only by "
        "the functions the step obligations execute, by no token scanner.",
   note="Kernel-only: one call of handle_indentation and one call of scan_token (inductive steps from an arbitrary layout state). The composition over a whole file, the token scanners for "
        "non-layout characters (summarised as events: strings spanning lines, numbers, identifiers) and the parser's newline skipping inside literals are NOT covered - under Kani one lexer run on 3 symbolic layout characters does not finish (20+ min, 6 GB), and "
        "the token scanners slice the source string, for which the MIR executor has no model. Stand-ins: peek / advance / is_at_end as a character stream (their bodies drive a "
        "Peekable<CharIndices>); Token::new, Span::new, CompileError::new, format! summarised. Leading runs longer than N characters and stacks deeper than 3 (thorough 8) levels are outside the bound.",
   ref="DESIGN.md section 0.8, C10"),
 "C12": dict(
   cat="model_checking", tech="enum-level symbolic execution of rustc MIR + SMT (z3): generate_cargo_toml with the dependency HashMap as a symbolic map iterated in both directions",
   text="Solver-based, bounded, ONE mechanism of the property (the first the anchors name): the [dependencies] table of the generated Cargo.toml does not depend on HashMap "
        "iteration order. ProjectGenerator::generate_cargo_toml is executed from the whole-crate MIR with the four need-flags symbolic and rust_crate_deps a symbolic map of "
        "0..=2 (thorough 3) entries with symbolic names (string equality / order = equality / order of integer ids, decided by z3), once with the entries yielded in one order and once "
        "in the reverse order; every pair of jointly satisfiable paths of the two runs must build the identical sequence of dependency lines (`sort_by` is modelled as: every "
        "permutation ascending in the keys, under the corresponding order constraints). A deviation is replayed by generating the same project in several processes through the "
        "public ProjectGenerator API and comparing the written Cargo.toml (`replay cargotoml`, dev and release). X-mod_decls: the same two-order execution of generate_multi - "
        "the `mod <name>;` declarations inserted into main.rs are one per module and the same sequence under both iteration orders.",
   note="Kernel-only: the generated Rust files (emitter metadata maps, codegen feature sets), module-declaration order in generate_nested (keys are Vec<String>), module collection order "
        "in the CLI, diagnostics order and formatter output are NOT covered (their HashMaps are keyed by non-string values or live in code that writes files as it goes); two of "
        "the three round-5 seeded changes for this property are outside this kernel. One genuine defect (dependency lines in iteration order) was repaired in /repo.",
   ref="DESIGN.md section 0.7, C12"),
 "C13": dict(
   cat="model_checking", tech="bounded model checking of the compiled code (Kani/CBMC, symbolic identifier) + enum-level MIR symbolic execution of the emission plan",
   text="Solver-based, bounded, KERNEL of the property: (a) for EVERY identifier-shaped name of 2..8 bytes the keyword table used for escaping (is_keyword) recognises every "
        "Rust 2021 strict/reserved keyword that can be a raw identifier (oracle: the Rust Reference lists) and never `self`/`Self`/`_`; (b) every runtime helper the "
        "operator emission plan can emit is referred to by an absolute `incan_stdlib::...` path on every plan path, so no user-chosen name can capture it; "
        "(c) constructor detection (X-lower_ctor): a call `Name(args)` is lowered as a construction exactly when Name is a known struct or its first character is upper-case "
        "(the two tests as arbitrary answers), with the arguments as fields in order - never for other names.",
   note="Kernel-only: the emission SITES (which identifiers are passed through the escaper: fields, methods, types, generated temporaries), the constructor/capitalisation "
        "heuristics and name clashes with prelude items are TokenStream/HashMap code and are NOT covered; escape_keyword itself is private (no hook added).",
   ref="DESIGN.md section 0.5, C13"),
 "C04": dict(
   cat="model_checking", tech="bounded SMT checking of rustc MIR (own MIR->SMT-LIB encoder; cvc5 + z3), Kani/CBMC for the raise paths",
   text="Solver-based, bounded: the numeric kernels, wrappers, trait impl bodies and generic front ends of incan_core/incan_stdlib are symbolically "
        "executed from the working tree's MIR and every obligation (floor, sign, identity, no-overflow, core/stdlib parity, zero-divisor raise, float sign "
        "rule / floor / mixed promotion) is discharged by cvc5/z3 over ALL operand pairs: full i64 via Int theory + truncated-division lemma "
        "(cross-checked bit-exactly at 8/16 bits), floats at f32 in the quick tier and f64 in the thorough tier. A sat answer is replayed on the native build.",
   note="Trusted: rustc's MIR as the semantics of the source, the encoder (validated each run against the repo's own test vectors and two solvers), the "
        "division lemma (re-validated at 8/16-bit each run). Quick tier decides floats at f32 only; NaN/inf operands and i64::MIN // -1 are outside (as in the "
        "property). One known finding (|a % b| == |b| by rounding, same as CPython) is listed in known_findings.json.",
   ref="DESIGN.md section 4, C04"),
 "C05": dict(
   cat="model_checking", tech="bounded model checking of the compiled code (Kani/CBMC harnesses, symbolic i64/Option<i64> arguments) + enum-level MIR symbolic execution (SMT) of the parse/lower/emit links",
   text="Solver-based, bounded: Kani harnesses call the real list_get/list_get_mut/list_slice/str_char_at/str_index/str_slice/range/PyRange::next with "
        "every i64 / Option<i64> argument (2^195 slice triples) on lists of <= 4 (thorough 6) symbolic elements and strings of 0..4 (thorough 6) scalars of "
        "1-4 bytes, against CPython's index/slice/range semantics written in i128; overflow, OOB and unwinding assertions stay on; range is one inductive "
        "step from the arbitrary state, so runs of any length are covered. Counterexamples are replayed natively (dev + release) before being reported.",
   note="Bounded by list/string length; strings are concrete (arguments symbolic); output containers of the slice kernels are replaced by a push log "
        "(validated by an un-stubbed twin in the thorough tier); raise() is a stand-in that checks the error kind, message text is compared in native replay; "
        "dict_get (HashMap) and the parser's slice syntax are outside.",
   ref="DESIGN.md section 4, C05"),
 "C07": dict(
   cat="model_checking", tech="enum-level symbolic execution of rustc MIR + SMT (own encoder, z3/cvc5) for adapters, lowering, emission plan and the type checker's rule bodies; Kani/CBMC for the policy and exponent classifiers",
   text="Solver-based: the shared numeric policy (result_numeric_type, needs_float_promotion, from_literal_info), the four operator/type adapters and the "
        "three exponent classifiers are decided against the documented table for every operator x operand-kind x exponent-kind combination and every i64 literal "
        "(Kani); the IR-side adapters, lowering's lower_binop/binary_result_type, the emitter's determine_binop_plan (result type, conversions, emission form) "
        "and the rule bodies of the type checker's check_binary, compound-assignment arm and of the const evaluator's binary arm are symbolically executed from the whole-crate MIR with every enum "
        "tag symbolic and decided by z3/cvc5; models are replayed natively (plan) or as generated programs through the public type-check API.",
   note="The checker/lowering traversals themselves (recursion over sub-expressions, scopes) are summarised by arbitrary operand types, i.e. each rule is "
        "decided for all operand types but nesting is not executed; rustc's typing of the emitted expression is not encoded; "
        "exponent parentheses up to depth 2.",
   ref="DESIGN.md section 4, C07"),
 "C11": dict(
   cat="model_checking", tech="bounded model checking of the compiled code (Kani/CBMC, symbolic UTF-8 source and span) + SMT-checked inductive step of the parser's token cursor from its MIR (z3, cvc5 cross-check)",
   text="Solver-based, bounded, THREE mechanisms of the property: (c) the type checker's `base[i]` / `base.field` rule bodies (check_index, check_field) return a type for every receiver type "
        "(tuples / generic collections with 0..=3 element types), every literal index / parsed field number and every symbol-table answer - no out-of-bounds index, overflow or unwrap "
        "(X-tc_access_total, E2-X); (a) the parser's token cursor: from EVERY state with a non-empty buffer ending in Eof (any length up to 2^62) and pos inside it, "
        "each cursor helper (peek, peek_next, advance, check*, match_*, expect*, skip_*, synchronize) returns without an out-of-bounds index or arithmetic overflow, never moves backwards and "
        "keeps pos inside the buffer (one inductive step; advance and its unguarded callers under the precondition 'a token was consumed or the current token is not Eof'); (b) terminal rendering of a diagnostic (format_error/get_line_info) cannot panic for any "
        "valid-UTF-8 source of <= 4 bytes (thorough: 6) and any span (inside, empty, reversed, past the end, mid-scalar); the editor range half is C19's span obligation.",
   note="Kernel-only: totality of the lexer, of the parser's grammar functions (incl. that each call site of advance establishes its precondition), type checker, formatter and "
        "--emit-rust is NOT covered (CBMC does not get through them, DESIGN sections 0.5 and 3); "
        "alloc::fmt::format is stubbed (the slicing/caret arithmetic is outside format!).",
   ref="DESIGN.md section 4, C11"),
 "C14": dict(
   cat="model_checking", tech="bounded model checking of the compiled code (Kani/CBMC, symbolic visibility per declaration kind) + enum-level symbolic execution of rustc MIR with SMT-decided name equality (z3) for the importer-side visibility check",
   text="Solver-based, the VISIBILITY half of the property: (a) the export filter (exported_symbols) exports a declaration iff it is `pub`, under the right kind and name, "
        "for each of the 9 declaration kinds (Kani); (b) the importer side (validate_import_visibility, E2-X): for `from m import x, ..` the dependency's exports are looked "
        "up under the whole module path joined with `_`, and exactly the items whose name equals no exported name (incl. variant names) are reported - for 0..=3 exported "
        "symbols of every kind x 0..=3 items with symbolic names; nothing is reported for other import forms or modules without recorded exports.",
   note="Kernel-only: path resolution (which file an import refers to; CLI vs LSP agreement), cycle detection and missing modules are file-system code and are NOT covered; "
        "the visibility rule is only applied to `from m import x` by the code (`import a::b` then `b.x` is not checked) and that gap is not decided here.",
   ref="DESIGN.md section 4, C14"),
 "C15": dict(
   cat="model_checking", tech="enum-level symbolic execution of rustc MIR + SMT (z3): generate_cargo_toml over a symbolic dependency map and add_rust_crate over a symbolic crate name",
   text="Solver-based, bounded, the MANIFEST mechanisms of the property: (a) X-cargo_toml: on every feasible path of generate_cargo_toml (need-flags symbolic; 0..=2, thorough 3, "
        "`rust::` crates with symbolic names) the [dependencies] table is: incan_stdlib and incan_derive by path (features web / json exactly with axum / serde), the documented pinned "
        "lines for serde + serde_json, axum + tokio(net), tokio exactly when needed, and one line `name = <its own recorded spec>` for every rust:: crate whose name is none of the "
        "crates already declared - never a second line for one that is (z3 decides the name equalities), never `*`; (b) X-add_rust_crate: for each of the 19 known-good crates "
        "exactly its documented pin is recorded, for any other name nothing is recorded and Err(UnknownCrateError) is returned - the invariant (every recorded spec is Some) under "
        "which (a) is decided; (a) also demands that [package] name and the [[bin]] / [lib] name are the project's name as given; (c) X-generate_writes: every successful path of "
        "ProjectGenerator::generate (thorough: generate_multi too) writes, to <out>/Cargo.toml, the manifest generated in that same call; (d) the feature scanners that set the "
        "need-flags (X-scan_json_stringify, X-scan_async, X-scan_serde_derive): every arm of the serde / async AST walkers, executed with the walker family's recursive calls as "
        "uninterpreted answers, asks about EVERY sub-expression and statement list of its node (children computed from the type definitions), and detect_serde_usage looks at "
        "every decorator of every model / class before answering no - so the crate is declared wherever the construct stands. Replay: `replay cargotoml` (projects through "
        "the public ProjectGenerator API in several processes, a rebuild into the same directory, a hyphenated project name; dev and release).",
   note="Kernel-only: whether the walkers' notion of 'the construct' (which calls need serde / tokio) agrees with the emitter's use-line insertion, the web scanner, [package] / [[bin]] naming, output-dir validation and the "
        "CLI's handling of the error are NOT covered. Three genuine defects were repaired in /repo (scanners skipping parts of the AST; unknown crates "
        "declared as `*`; dependency order, see C12).",
   ref="DESIGN.md section 0.7, C15"),
 "C16": dict(
   cat="model_checking", tech="enum-level symbolic execution of rustc MIR + SMT (z3): the verdict loop of run_tests over symbolic tests / markers / outcomes; frame condition (reads and writes of the test-mode state) over the MIR of the whole crate",
   text="Solver-based, bounded, the runner's verdict mechanisms: (a) X-run_tests: the verdict loop of `incan test` is executed from the whole-crate MIR from the point where the "
        "filtered test list exists - 0..=2 (thorough 3) tests with 0..=2 (3) markers of every kind, every outcome of run_single_test (uninterpreted), --exitfirst symbolic: "
        "on every feasible path a @skip test is never run, every other test is run exactly once and in order unless --exitfirst stopped the run after a failure, @xfail "
        "inverts the verdict, and the exit status is a failure exactly when an executed test failed without @xfail or passed with it (a marker the loop never looked at is a free "
        "answer: a test may only run when every marker was seen not to be @skip); X-test_filter: the selection closure keeps a test iff its name contains the -k keyword (if "
        "given) and it is not @slow unless --slow; X-test_attr: on every path of IrEmitter::emit_function the selected function - and only it - gets #[test], whatever its "
        "return type; (b) X-test_harness: the test-mode flag "
        "and the selected test function that the runner sets on the code generator are actually READ by code generation (a frame condition over every function of the crate) - "
        "on the unchanged tree they were read by nothing: no #[test] was ever generated and every test was reported as passed; shown natively (`replay testrun`: the public "
        "run_tests, cargo in the generated project) and repaired in /repo.",
   note="Kernel-only: discovery, fixtures and parametrisation, the per-test pipeline inside run_single_test (lex/parse/codegen/cargo) and the extraction of "
        "failure messages are NOT covered symbolically; the native replay exercises one passing, one failing-assertion and one zero-division test.",
   ref="DESIGN.md section 0.7, C16"),
 "C17": dict(
   cat="model_checking", tech="enum-level symbolic execution of rustc MIR + SMT (z3/cvc5): the call-site rewrite in AstLowering::lower_expr and the nominal arm of TypeChecker::types_compatible",
   text="Solver-based, THREE mechanisms of the property: (a) the call rewrite (X-lower_ctor): for `Name(args)` with Name a known struct or capitalised, when a validation hook is "
        "recorded for Name, the call has exactly one positional argument and the site is not inside Name's own methods, the IR is `Name::<hook>(lowering of the argument).expect(..)` - "
        "on every path, for 0..=2 (thorough 3) arguments, with the map lookups / capitalisation / inside-own-impl answers arbitrary; otherwise a plain struct literal with the "
        "arguments in order; (b) nominal typing (X-newtype_nominal): a value of type Named(a) is accepted where Named(b) is declared iff the names are equal and never where "
        "int / float / bool / str / bytes / None is declared (built-in frozen string/bytes names excepted), so two newtypes over one underlying type are not interchangeable; "
        "(c) hook selection (X-select_hook): select_newtype_checked_ctor executed on a newtype with 0..=2 (thorough 3) methods of any shape - `filter_map`, `find`, `pop` through "
        "their closures, name tests and type equality as uninterpreted answers, answers the code never asked for left free: the recorded hook is `from_underlying` if it is a "
        "candidate (static, from_*, takes the underlying type, returns Result[T, _]), else the only candidate, else none.",
   note="Kernel-only: WHEN the hook is recorded (pre-pass, imported modules), how current_impl_type is "
        "maintained while methods are lowered, the hook's own run-time behaviour and the emission of the rewritten call are NOT covered; the registration pass (round-2 seed C17-3) is outside this kernel.",
   ref="DESIGN.md section 0.5, C17"),
 "C19": dict(
   cat="model_checking", tech="bounded model checking of the compiled code (Kani/CBMC, symbolic UTF-8 document, offsets, positions)",
   text="Solver-based, bounded: for EVERY valid-UTF-8 document of <= 4 bytes (thorough: 6, round trip 8) and every boundary offset / offset pair / Position / "
        "span < 2^32, the real offset_to_position, position_to_offset and span_to_range satisfy round trip, strict monotonicity, agreement with counting newlines "
        "and scalars, and well-formed in-document ranges. Unwinding assertions on.",
   note="Bounded by document length (multi-line interplay beyond 4-8 bytes is outside); offsets near usize::MAX outside (start + 1 overflow, unreachable for spans); "
        "compile_error_to_diagnostic (needs a Url) outside.",
   ref="DESIGN.md section 4, C19"),
}

NA = {
 "C08": "needs formatter -> lexer -> parser on symbolic ASTs; measured: formatter alone on a one-function AST > 25 min, round trip on a 1-char literal > 19 min",
 "C09": "same pipeline twice; --check/--diff not writing files is file-system behaviour with no encodable unit",
 "C10": "needs two lexer runs on symbolic text: under Kani one run on 3 symbolic layout characters does not finish (measured: 20+ min, 6 GB, also with the token vector logged); the MIR executor (E2-X) has no model of strings / char iterators with positions, which is all the lexer's INDENT/DEDENT synthesis consists of",
 "C12": "the property is about HashMap iteration order under random SipHash keys; hashbrown + SipHash with symbolic keys is far beyond the 2-insert measurement",
 "C15": "add_rust_crate/generate_cargo_toml insert into and iterate HashMap/HashSet and build text with format!; comparing scanners with use-insertion needs the emitter",
 "C16": "the verdict is the exit status of a spawned cargo test on a generated project; aggregation is inlined in a function doing file discovery and printing",
 "C18": "a property over interleavings of async handlers: Kani has no concurrency model, the handlers' bodies (lexer, parser, TypeChecker, tokio RwLock, tower-lsp Client) are not executable under CBMC, and the MIR executor runs one sequential function at a time - the async state machines rustc generates for the handlers are not among the MIR shapes it supports; a hand-written model of the await structure would not be the real code",
 "C20": "the code under test is the #[derive] expansion of emitter output (incan_derive proc-macros, serde) plus serde_json at run time: it exists only after rustc compiles a generated project, so there is no MIR of it in the repository's crates to execute and nothing for Kani to link against",
}

import sys
claimed = [a for a in sys.argv[1:]] or sorted(CLAIMED)
m = {
 "version": 1,
 "setup_cmd": "./setup.sh",
 "hooks": {"guard": "cfg(kani)", "enable": "cargo kani passes --cfg=kani to every crate; no hook is currently needed (all entry points are pub API or read from the MIR dump)",
           "baseline_off_cmd": "cd /repo && cargo test --workspace --no-fail-fast --offline", "source_commits": [], "add_only": True},
 "engines": [
   {"name": "E1 kani", "path": "kani/", "serves_properties": [c for c in ("C01", "C02", "C05", "C07", "C11", "C13", "C14", "C19") if c in claimed],
    "kind_free_text": "Kani 0.68 / CBMC 6.11 proof harnesses in an external crate with path dependencies on /repo; counterexamples replayed by replay/ (same harness bodies, native, dev+release)"},
   {"name": "E2 mirsmt", "path": "mirsmt/", "serves_properties": [c for c in ("C01", "C03", "C04", "C05", "C06", "C07", "C02", "C08", "C09", "C11", "C12", "C13", "C14", "C15", "C16", "C17") if c in claimed],
    "kind_free_text": "own symbolic executor over rustc's -Zunpretty=mir dump of the working tree, emitting SMT-LIB for cvc5 1.0 / z3 4.8.12"},
 ],
 "checks": [],
 "notes": "All checks: ./check <ID> --tier quick|thorough. Exit 0 held / 1 violation (VIOLATION line, natively reproduced) / 2 inconclusive (never a pass). Known findings: known_findings.json.",
 "not_applicable": [],
}
for pid in sorted(CLAIMED):
    c = CLAIMED[pid]
    if pid in claimed:
        m["checks"].append({
            "property_id": pid,
            "quick_cmd": f"./check {pid} --tier quick",
            "thorough_cmd": f"./check {pid} --tier thorough",
            "evidence_file": f"/verif/evidence/{pid}.json",
            "replay_cmd_template": f"./check {pid} --replay {{path}}",
            "engine": {"C04": "E2 mirsmt + E1 kani", "C05": "E1 kani + E2 mirsmt", "C06": "E2 mirsmt + E1 kani", "C01": "E2 mirsmt + E1 kani", "C07": "E2 mirsmt + E1 kani", "C13": "E1 kani + E2 mirsmt", "C11": "E1 kani + E2 mirsmt", "C14": "E1 kani + E2 mirsmt", "C17": "E2 mirsmt", "C03": "E2 mirsmt", "C08": "E2 mirsmt", "C09": "E2 mirsmt", "C12": "E2 mirsmt", "C15": "E2 mirsmt", "C16": "E2 mirsmt", "C02": "E2 mirsmt + E1 kani", "C10": "E2 mirsmt"}.get(pid, "E1 kani"),
            "level_claimed": {"category": c["cat"], "text": c["text"], "design_ref": c["ref"]},
            "level_note": c["note"],
            "technique": c["tech"],
        })
    else:
        m["not_applicable"].append({"property_id": pid, "reason": "check not built yet in this framework iteration (planned: " + c["tech"] + ")"})
for pid in sorted(NA):
    if pid not in claimed:
        m["not_applicable"].append({"property_id": pid, "reason": NA[pid]})
m["not_applicable"].sort(key=lambda x: x["property_id"])
json.dump(m, open("MANIFEST.json", "w"), indent=1)
print("claimed:", [c["property_id"] for c in m["checks"]], "n/a:", len(m["not_applicable"]))
